#!/usr/bin/env python
"""Reproductions for the C10 hunt (session persistence / failure residue / instance isolation).

Run:  cd /tmp/seed3/C10 && PYTHONPATH=/tmp/seed3/C10/src /venv/bin/python hunt/repro.py
Prints one line per finding: FINDING <n>: <VIOLATES|HOLDS> <description>
"""
import signal
import sys

from ckl.interpreter import Interpreter
from ckl.errors import CklRuntimeError, CklSyntaxError
from ckl.functions import get_none_environment


class Timeout(Exception):
    pass


def _alarm(signum, frame):
    raise Timeout()


signal.signal(signal.SIGALRM, _alarm)


def mk(legacy=False):
    return Interpreter(secure=False, legacy=legacy)


def run(it, src, env=None):
    """Returns ('OK', str(value)) or ('RTE'|'SYN'|'PY', message)."""
    try:
        if env is None:
            return ("OK", str(it.interpret(src, "t.ckl")))
        return ("OK", str(it.interpret(src, "t.ckl", env)))
    except CklRuntimeError as e:
        return ("RTE", str(e.msg))
    except CklSyntaxError as e:
        return ("SYN", str(e.msg))
    except Timeout:
        raise
    except Exception as e:  # pragma: no cover
        return ("PY", type(e).__name__ + ": " + str(e))


def finding(n, description, probe):
    signal.alarm(15)
    try:
        violates = probe()
        verdict = "VIOLATES" if violates else "HOLDS"
    except Timeout:
        verdict = "VIOLATES"
        description += " [probe timed out]"
    except Exception as e:
        verdict = "HOLDS"
        description += " [probe crashed: %s: %s]" % (type(e).__name__, e)
    finally:
        signal.alarm(0)
    print("FINDING %d: %s %s" % (n, verdict, description))


# 1. a successful for loop deletes a top-level definition of the same name
def f1():
    bad = False
    for legacy in (True, False):
        for loop in ("for i in [1, 2] do i end",
                     "for i in <<1, 2>> do i end",
                     "for i in <<<1 => 2>>> do i end",
                     "for i in 'ab' do i end",
                     "for [i, j] in [[1, 2]] do i end"):
            it = mk(legacy)
            assert run(it, "def i = 5") == ("OK", "5")
            assert run(it, loop)[0] == "OK"
            if run(it, "i") != ("OK", "5"):
                bad = True
    # also through a closure that reads the global
    it = mk()
    run(it, "def i = 5; def get_i() i")
    run(it, "for i in [1] do i end")
    if run(it, "get_i()") != ("OK", "5"):
        bad = True
    return bad


# 2. loop aborted by an error leaves the loop variable(s) behind / overwrites a definition
def f2():
    bad = False
    it = mk()
    r = run(it, "for k in [1, 2] do 1/0 end")
    assert r == ("RTE", "divide by zero")
    if run(it, "k")[0] == "OK":          # fresh session + failed loop: k should not exist
        bad = True
    it = mk()
    run(it, "def k = 7")
    run(it, "for k in [1, 2] do 1/0 end")
    if run(it, "k") != ("OK", "7"):      # prior definition replaced by loop value
        bad = True
    it = mk()
    run(it, "for [a, b] in [[1, 2]] do 1/0 end")
    if run(it, "a")[0] == "OK" or run(it, "b")[0] == "OK":
        bad = True
    return bad


# 3. break / return out of a string loop leaves the loop variable defined (successful call)
def f3():
    it = mk()
    assert run(it, "for c in 'abc' do break end")[0] == "OK"
    leaked_break = run(it, "c")[0] == "OK"
    it = mk()
    run(it, "for c in [1, 2, 3] do break end")
    list_clean = run(it, "c")[0] != "OK"
    return leaked_break and list_clean   # inconsistent: list loop cleans up, string loop does not


# 4. doc string of a definition of NULL/TRUE/FALSE is visible in other interpreter instances
def f4():
    a = mk()
    b = mk()
    before = run(b, "info(NULL)"), run(b, "info(TRUE)"), run(b, "info(FALSE)")
    run(a, "'secret doc of x' def x = NULL")
    run(a, "'secret doc of t' def t = TRUE")
    run(a, "'secret doc of f' def f = FALSE")
    c = mk()  # even an instance created afterwards
    after = run(b, "info(NULL)"), run(b, "info(1 < 2)"), run(c, "info(1 > 2)")
    # clean up process-wide state for the following probes
    run(a, "def x = NULL; def t = TRUE; def f = FALSE")
    return after != (("OK", "''"),) * 3 and "secret" in str(after)


# 5. interpret(..., environment=env) never restores env's parent; reusing env with a second
#    interpreter grafts the first interpreter's base environment under the second one
def f5():
    a = mk()
    b = mk()
    run(a, "def only_a = 'A'")
    run(b, "def only_b = 'B'")
    env = get_none_environment()
    run(a, "only_a", env)
    stays_chained = env.parent is a.environment
    run(b, "only_b", env)
    a_sees_b = run(a, "only_b") == ("OK", "'B'")
    return stays_chained and a_sees_b


# 6. def g = f renames f and wipes its doc string (earlier definition changes on read-back)
def f6():
    it = mk()
    run(it, "'doc f' def f(x) x")
    before = (run(it, "f"), run(it, "info(f)"))
    run(it, "def g = f")
    after = (run(it, "f"), run(it, "info(f)"))
    return before != after


# 7. random generator state is process-global: set_seed in one instance steers another
def f7():
    a = mk(legacy=True)   # legacy mode has set_seed/random in the base environment
    b = mk(legacy=True)
    run(b, "set_seed(42)")
    expect = [run(b, "random(1000)") for _ in range(3)]
    run(b, "set_seed(42)")
    run(a, "set_seed(7); random(1000)")
    got = [run(b, "random(1000)") for _ in range(3)]
    return expect != got


finding(1, "a for loop whose variable has the name of a top-level definition deletes that definition", f1)
finding(2, "a for loop aborted by an error leaves its loop variable(s) defined / overwrites a same-named definition", f2)
finding(3, "break out of a string for loop leaves the loop variable defined (list loop does not)", f3)
finding(4, "doc string attached to def x = NULL/TRUE/FALSE is visible via info() in other interpreter instances", f4)
finding(5, "interpret(environment=env) never detaches env; reusing env on a second interpreter lets the first see the second's definitions", f5)
finding(6, "def g = f renames f to <#g> and wipes info(f)", f6)
finding(7, "set_seed/random state is shared between interpreter instances", f7)
