"""C01  Parsing is total: every source text yields a program or a syntax error."""
import os
import subprocess
import sys
import tempfile
import json
import traceback

from hypothesis import strategies as st

from vf.core import Finding, time_limit, CaseTimeout
from vf.gen.chooser import TapeChooser, tapes
from vf.gen import syntax
from vf.repo import SRC, VERIF_DIR

PROPERTY = "C01"
RULE = (
    "Texts come from (G1) token soup of 1-40 tokens over the full token "
    "alphabet incl. malformed literals, (G2) every token/char prefix, every "
    "single-token deletion and every insertion/substitution of every alphabet "
    "token at every position of grammar-generated programs, (G3) character "
    "noise, (G4, thorough) coverage-guided byte fuzzing. Oracle: parse_script "
    "returns a node or raises CklSyntaxError with non-empty msg and a position "
    "with an integer line, within the time budget, twice with the same "
    "outcome. Non-trivial = distinct text that is not the verbatim rendering "
    "of a generated grammatical program (malformed, truncated, edited, noise)."
)
ASSUMPTIONS = [
    "nesting depth <= 40 by construction (<= 40 tokens in soup/noise; "
    "generated programs have depth <= 8 and edits change it by one)",
    "a time budget of 2 s (typical parse 0.3 ms) decides 'terminates'; a hit "
    "is confirmed in a fresh process with a 20 s budget before it is reported",
    "the parser runs with 1000 stack frames available, as under the default "
    "host recursion limit",
]

SEPARATORS = [" ", " ", " ", "", "\n", "\t", "\r\n", "  ", " # c\n", "#\n"]
NOISE_CHARS = list("()[]<>=!+-*/%,;#'\"\\._ \t\n\rabfxz019eEXB") + \
    ["é", " ", "ß", "€", "\x00", "\x7f", "<<", ">>", "//", "->", "!>",
     "...", "0x", "0b", "\\x", "do ", "end ", "def ", "fn(", "for ", " in ",
     "if ", " then ", "is ", "not "]
NAME = "f.ckl"


def _ckl_frame(tb):
    """Innermost frame inside the repository's sources."""
    best = "?"
    for fs in traceback.extract_tb(tb):
        if fs.filename.startswith(SRC):
            best = f"{os.path.basename(fs.filename)}:{fs.name}"
    return best


def _ast_hole(node, depth=0, seen=None):
    """A program is a tree of nodes: a None in a list of child nodes or as
    the body of a function is a hole, not a program."""
    if seen is None:
        seen = set()
    if depth > 200 or id(node) in seen:
        return None
    seen.add(id(node))
    cls = type(node).__name__
    if not cls.startswith("Node"):
        return None
    for name, v in vars(node).items():
        if cls == "NodeLambda" and name == "body" and v is None:
            return "function without a body"
        items = v if isinstance(v, (list, tuple)) else [v]
        child_list = isinstance(v, (list, tuple)) and \
            name in ("expressions", "items", "args", "statements")
        for x in items:
            if child_list and x is None:
                return f"None among the {name} of a {cls}"
            if isinstance(x, (list, tuple)):
                for y in x:
                    if type(y).__name__.startswith("Node"):
                        h = _ast_hole(y, depth + 1, seen)
                        if h:
                            return h
            elif type(x).__name__.startswith("Node"):
                h = _ast_hole(x, depth + 1, seen)
                if h:
                    return h
    return None


def parse_outcome(text, budget=2.0):
    from ckl.parser import parse_script
    from ckl.errors import CklSyntaxError
    depth = 0
    fr = sys._getframe()
    while fr is not None:
        depth += 1
        fr = fr.f_back
    old = sys.getrecursionlimit()
    sys.setrecursionlimit(depth + 1000)
    try:
        try:
            with time_limit(budget):
                node = parse_script(text, NAME)
            if not hasattr(node, "evaluate"):
                return ("bad", "no-node", type(node).__name__)
            hole = _ast_hole(node)
            if hole:
                return ("bad", "program-with-a-hole", hole)
            try:
                # the parse() built-in hands this text to programs; a tree
                # that shares sub-nodes (a[i] += v holds a[i] twice) can
                # take very long to render: inconclusive, not a finding
                try:
                    with time_limit(budget):
                        text_ = repr(node)
                except CaseTimeout:
                    return ("program",)
                if not isinstance(text_, str):
                    return ("bad", "program-renders-as-non-string",
                            type(text_).__name__)
            except RecursionError:
                pass          # depth is out of scope (see the statement)
            except BaseException as e:
                return ("host", type(e).__name__ + "-rendering-the-program",
                        _ckl_frame(e.__traceback__), str(e)[:200])
            return ("program",)
        except CklSyntaxError as e:
            msg, pos = e.msg, e.pos
            if not isinstance(msg, str) or not msg.strip():
                return ("bad", "syntax-error-without-message", repr(msg))
            if pos is None or not isinstance(getattr(pos, "line", None), int) \
                    or isinstance(getattr(pos, "line", None), bool):
                return ("bad", "syntax-error-without-position",
                        f"{msg!r} pos={pos!r}")
            return ("syntax", msg, str(pos))
        except CaseTimeout:
            return ("timeout",)
        except BaseException as e:
            return ("host", type(e).__name__, _ckl_frame(e.__traceback__),
                    str(e)[:200])
    finally:
        sys.setrecursionlimit(old)


def _finding(out, out2=None):
    if out[0] == "host":
        return Finding(f"parse|{out[1]}|{out[2]}", f"{out[1]}: {out[3]}")
    if out[0] == "bad":
        return Finding(f"parse|{out[1]}", out[2])
    if out[0] == "timeout":
        return Finding("parse|timeout", "no outcome within the budget")
    if out2 is not None and out2 != out:
        return Finding("parse|nondeterministic", f"{out} vs {out2}")
    return None


def prop(case):
    budget = float(os.environ.get("VF_CASE_BUDGET", "20"))
    out = parse_outcome(case["text"], budget)
    out2 = parse_outcome(case["text"], budget)
    return _finding(out, out2)


def confirm_timeout(case):
    """Re-run one case alone in a fresh process with a 20 s budget."""
    fd, path = tempfile.mkstemp(suffix=".json", prefix="vf_c01_")
    try:
        with os.fdopen(fd, "w") as f:
            json.dump({"property": PROPERTY, "case": case}, f)
        env = dict(os.environ)
        env["VF_CASE_BUDGET"] = "20"
        try:
            r = subprocess.run(
                [sys.executable, "-m", "vf", "replay", path], cwd=VERIF_DIR,
                env=env, capture_output=True, text=True, timeout=60)
        except subprocess.TimeoutExpired:
            return True
        return r.returncode == 1 and "parse|timeout" in r.stdout
    finally:
        os.unlink(path)


def _eval(part, text, source, twice=True):
    """Evaluate one text; returns an unknown Finding or None."""
    part.count()
    out = parse_outcome(text)
    out2 = parse_outcome(text) if twice and out[0] not in ("timeout",) else None
    case = {"kind": "parse", "source": source, "text": text}
    if out[0] == "timeout":
        if part.judge(Finding("parse|timeout"), case) is None:
            return None
        if confirm_timeout(case):
            return Finding("parse|timeout",
                           "no outcome within 20 s in a fresh process")
        part.timeouts += 1
        return None
    part.cls(f"{source}:{out[0]}", text if len(text) < 200 else None)
    return part.judge(_finding(out, out2), case)


# ------------------------------------------------------------------ parts

def part_soup(part, n):
    def body(tape):
        ch = TapeChooser(tape)
        k = ch.int(1, 40)
        toks = [ch.choice(syntax.TOKEN_ALPHABET) for _ in range(k)]
        text = ""
        for i, t in enumerate(toks):
            if i:
                text += ch.choice(SEPARATORS)
            text += t
        part.nontriv(text)
        f = _eval(part, text, "soup")
        if f:
            return f, {"kind": "parse", "source": "soup", "text": text}
    part.hyp(tapes(1500), body, n)


def part_noise(part, n):
    def body(tape):
        ch = TapeChooser(tape)
        k = ch.int(1, 40)
        text = "".join(ch.choice(NOISE_CHARS) for _ in range(k))
        part.nontriv(text)
        f = _eval(part, text, "noise")
        if f:
            return f, {"kind": "parse", "source": "noise", "text": text}
    part.hyp(tapes(1500), body, n)


def _edits(tokens, alphabet):
    """All prefixes, deletions, and single-token insertions/substitutions."""
    n = len(tokens)
    for i in range(n):
        yield "prefix", tokens[:i]
    for i in range(n):
        yield "delete", tokens[:i] + tokens[i + 1:]
    for i in range(n + 1):
        for t in alphabet:
            yield "insert", tokens[:i] + [t] + tokens[i:]
    for i in range(n):
        for t in alphabet:
            if t != tokens[i]:
                yield "subst", tokens[:i] + [t] + tokens[i + 1:]


def part_edits(part, n, max_tokens=45):
    stats = {"programs": 0, "programs_parse": 0}

    def body(tape):
        ch = TapeChooser(tape)
        g = syntax.SynGen(ch, max_depth=ch.int(2, 4))
        tokens = g.script(ch.int(1, 3))
        if len(tokens) > max_tokens:
            tokens = tokens[:max_tokens]
        base = " ".join(tokens)
        stats["programs"] += 1
        part.count()
        out = parse_outcome(base)
        if out[0] == "program":
            stats["programs_parse"] += 1
        part.cls("edits:base:" + out[0], base)
        f = part.judge(_finding(out), {"kind": "parse", "source": "base",
                                       "text": base})
        if f:
            part.collect(f, {"kind": "parse", "source": "base", "text": base})
        i = 0
        for kind, toks in _edits(tokens, syntax.TOKEN_ALPHABET):
            text = " ".join(toks)
            if text != base:
                part.nontriv(text)
            i += 1
            f = _eval(part, text, "edit-" + kind, twice=(i % 4 == 0))
            if f:
                part.collect(f, {"kind": "parse", "source": "edit-" + kind,
                                 "text": text})
        # character-level prefixes
        for j in range(len(base)):
            text = base[:j]
            part.nontriv(text)
            f = _eval(part, text, "charprefix", twice=False)
            if f:
                part.collect(f, {"kind": "parse", "source": "charprefix",
                                 "text": text})
    part.hyp(tapes(1500), body, n, shrink=False)
    part.note("grammar_programs", stats["programs"])
    part.note("grammar_programs_that_parse", stats["programs_parse"])


def part_grammar(part, n):
    """Self-test of the grammar generator and plain totality on its output:
    most generated programs must be grammatical."""
    stats = {"n": 0, "ok": 0}

    def body(tape):
        ch = TapeChooser(tape)
        g = syntax.SynGen(ch, max_depth=ch.int(2, 5))
        tokens = g.script()
        text = ""
        for i, t in enumerate(tokens):
            if i:
                text += ch.choice([" ", " ", "\n", "\t", " # x\n", "\r\n"])
            text += t
        stats["n"] += 1
        out = parse_outcome(text)
        if out[0] == "program":
            stats["ok"] += 1
        f = _eval(part, text, "grammar")
        if f:
            return f, {"kind": "parse", "source": "grammar", "text": text}
    part.hyp(tapes(1500), body, n)
    part.note("generated", stats["n"])
    part.note("parsed_as_program", stats["ok"])


def special_texts(ch=None):
    """Hand-picked families the random parts reach too rarely: literals at
    the host's int <-> str limit, value-less returns in every tail position,
    and every expression kind where only names are allowed."""
    out = []
    for n in (4299, 4300, 4301, 4302, 5000, 20000):
        out += ["9" * n, "x = -" + "1" * n + ";", "1" * n + ".5",
                "0." + "1" * n, "1_" + "0" * n, "[" + "7" * n + "]",
                "'" + "a" * n + "'", "//" + "a" * n + "//", "a" * n]
    for n in (3570, 3571, 3572, 3573, 4301):
        out += ["0x" + "f" * n, "0x" + "0" * n + "1"]
    for n in (14283, 14284, 14285, 14286):
        out += ["0b" + "1" * n]
    tails = ["return;", "1; return;", "fn() return;", "def f() return;",
             "def f() do 1; return; end", "do return; end", "do 1; return; end",
             "if TRUE then return;", "if TRUE then 1 else return;",
             "for x in [1] do return; end", "while TRUE do return; end",
             "def f() do do 1; return; end end", "(return;)", "[return;]",
             "f(return;)", "return; return;", "return", "return 1; return;",
             "do 1 catch all return; end", "do 1 finally return; end",
             "<*m(self) return;*>", "def class C do def m(self) return; end",
             "s('{return;}')", "break;", "1; break;", "fn() break;",
             "continue;", "fn() do continue; end"]
    out += tails
    # items of a destructuring target that are expensive to render
    for n in (5, 12, 18, 25, 39):
        out += ["[" + "a[" * n + "0" + "] += 1" * n + "] = 1",
                "[" + "(" * n + "a" + "->b += 1)" * n + "] = 1",
                "[1 < " + "(1 < " * n + "1" + " < 1)" * n + " < 1] = 1",
                "a[" * n + "0" + "] += 1" * n]
    for n in (50, 300, 400, 2000):
        out += ["[1" + " + 1" * n + "] = 1", "[a" + "->b" * n + "] = 1",
                "[a" + "()" * n + "] = 1", "[a" + "[0]" * n + "] = 1",
                "[a" + " !> f()" * n + "] = 1", "[x, 1" + " * 2" * n + "] = y",
                "def [1" + " + 1" * n + "] = 1"]
    exprs = ["(for a in b c)", "fn() (for a in b c)", "do for a in b do end end",
             "if a then (for a in b c)", "(while a do b end)", "x[1]", "x->y",
             "x(1)", "1", "'s'", "//p//", "[a]", "<<a>>", "<<<a => 1>>>",
             "<*a = 1*>", "fn(x) x", "a + b", "not a", "-a", "a is zero",
             "a in b", "(a)", "do a end", "if a then b", "a !> f()", "...a",
             "a = 1", "def a = 1", "def f() 1", "error a", "return a",
             "break", "continue", "require M", "[a for a in b]", "a[1 to 2]",
             "NULL", "TRUE", "a...", "a, b", "[a, b]", "checkerlang_x"]
    for e in exprs:
        out += [f"[{e}] = 1", f"def [{e}] = 1", f"[a, {e}] = [1, 2]",
                f"for [{e}] in x do 1 end", f"for {e} in x do 1 end",
                f"fn({e}) 1", f"def f({e}) 1", f"def {e} = 1",
                f"[1 for {e} in x]", f"[1 for [{e}] in x]",
                f"require M import [{e}]", f"require M as {e}",
                f"<*{e} = 1*>", f"def class {e} do end",
                f"f({e} = 1)", f"{e} = 1", f"{e} += 1",
                f"do 1 catch {e} 2 end", f"x->{e}", f"x->{e} = 1"]
    return out


def part_special(part):
    for text in special_texts():
        f = _eval(part, text, "special")
        part.distinct()
        part.collect(f, {"kind": "parse", "source": "special",
                         "text": text if len(text) < 300 else text})
    part.exhaustive = True


SEED_CORPUS = [
    "def f(x) x * 2; [f(1), f(2)]",
    "def m = <<<'a' => 1, 'b' => 2>>>; [k for k in keys m]",
    "if 1 < 2 <= 2 then 'y' elif TRUE then 0 else 'n'",
    "do error 5 catch 5 'five' finally 0 end",
    "def g(a, b = 2, r...) [a, b, r...]; g(1, 2, ...[4, 5])",
    "for i in range(3) do if i == 1 then continue end; i",
    "require Math import [abs as a]; a(-3) !> string()",
    "def class P do def x = 1; def m(self) self->x end",
    "<*a = 1, f(self) 2*>->f() + 0x1F + 0b11 + 1_000.5 + //a+// is pattern",
    "x[1 to *] = [y for y in <<1, 2>> also for z in 'ab' if y is not zero]",
]


def part_atheris(part, runs, use_seed_corpus):
    """Coverage-guided byte fuzzing of parse_script (libFuzzer via atheris)
    with the same oracle inside the target."""
    import re as _re
    import shutil
    try:
        from vf import repo as _r
        sys.path.append(_r.DEPS) if _r.DEPS not in sys.path else None
        import atheris  # noqa
    except Exception as e:
        part.note("atheris", f"not available ({type(e).__name__}); part skipped")
        part.cls("atheris:unavailable")
        return
    work = tempfile.mkdtemp(prefix="vf_c01_fuzz_")
    corpus = os.path.join(work, "corpus")
    arts = os.path.join(work, "artifacts")
    os.makedirs(corpus)
    os.makedirs(arts)
    if use_seed_corpus:
        for i, sn in enumerate(SEED_CORPUS):
            with open(os.path.join(corpus, f"seed{i}"), "w") as f:
                f.write(sn)
    env = dict(os.environ)
    env["PYTHONPATH"] = os.pathsep.join(
        [VERIF_DIR, os.path.join(VERIF_DIR, ".deps")])
    try:
        r = subprocess.run(
            [sys.executable, "-m", "vf.checks.c01_fuzz", corpus, arts,
             f"-runs={runs}", f"-seed={part.seed % 2000000000 + 1}",
             "-max_len=160", "-timeout=30", "-rss_limit_mb=4096",
             "-print_final_stats=1"],
            cwd=VERIF_DIR, env=env, capture_output=True, text=True,
            timeout=7200)
        log = r.stdout + r.stderr
        m = _re.search(r"stat::number_of_executed_units:\s*(\d+)", log)
        done = int(m.group(1)) if m else 0
        part.count(done)
        ncorp = len(os.listdir(corpus))
        part.distinct(ncorp)
        part.note("libfuzzer_executed_units", done)
        part.note("libfuzzer_corpus_size", ncorp)
        part.cls("atheris:" + ("seed-corpus" if use_seed_corpus
                               else "empty-corpus"),
                 sorted(os.listdir(corpus))[:1])
        for fn in sorted(os.listdir(arts)):
            with open(os.path.join(arts, fn), "rb") as f:
                text = f.read().decode("utf-8", "replace")
            case = {"kind": "parse", "source": "atheris", "text": text}
            f2 = prop(case)
            if f2 is not None:
                part.collect(f2, case)
        if r.returncode != 0 and not os.listdir(arts):
            part.note("libfuzzer_exit", r.returncode)
            part.note("libfuzzer_log_tail", log[-400:])
    finally:
        shutil.rmtree(work, ignore_errors=True)


def parts(tier, seed):
    if tier == "quick":
        ps = [("special", part_special, {})]
        ps += [("soup-%d" % i, part_soup, {"n": 2500}) for i in range(4)]
        ps += [("noise-%d" % i, part_noise, {"n": 2500}) for i in range(3)]
        ps += [("edits-%d" % i, part_edits, {"n": 2, "max_tokens": 30})
               for i in range(8)]
        ps += [("grammar-0", part_grammar, {"n": 1500})]
        ps += [("atheris-%d" % i, part_atheris,
                {"runs": 15000, "use_seed_corpus": i == 0}) for i in range(2)]
    else:
        ps = [("special", part_special, {})]
        ps += [("soup-%d" % i, part_soup, {"n": 30000}) for i in range(4)]
        ps += [("noise-%d" % i, part_noise, {"n": 30000}) for i in range(3)]
        ps += [("edits-%d" % i, part_edits, {"n": 12, "max_tokens": 45})
               for i in range(16)]
        ps += [("grammar-%d" % i, part_grammar, {"n": 15000})
               for i in range(2)]
        ps += [("atheris-%d" % i, part_atheris,
                {"runs": 600000, "use_seed_corpus": i % 2 == 0})
               for i in range(8)]
    return ps
