"""C09  Secure mode denies file, process and script-loading access to every program."""
import builtins
import inspect
import io
import os
import re
import shutil
import subprocess
import sys
import tempfile

from vf.core import Finding, time_limit, CaseTimeout
from vf.gen.chooser import TapeChooser, tapes
from vf import cklrun

PROPERTY = "C09"
RULE = (
    "OS-access monitor = sys.addaudithook plus logging wrappers on the "
    "os / os.path / shutil / subprocess / open entry points plus a content "
    "snapshot of a canary directory (files, a sub-directory, a script). "
    "Ground truth: in a NON-secure interpreter inside a scratch canary every "
    "native known to the binder and every ValueFunc subclass is called with "
    "path-like and command-like arguments; those that cause a forbidden event "
    "form the set D of dangerous natives. Exhaustive in secure interpreters "
    "(legacy and non-legacy): bind_native(n) and bind_native(n, alias) for "
    "every name n followed by calls by name and alias; every public symbol of "
    "every bundled module via `require M; M->sym(args)` and via `unqualified`; "
    "module specs that try to leave the module directories (../ chains, "
    "relative and absolute paths to a script in the canary, in five require "
    "forms); "
    "about 40 syntactic ways of defining / assigning / shadowing the secure "
    "flag each followed by binding attempts; every one- and two-step "
    "sequence of plain, destructuring and compound (+= -= *= /= %=) "
    "assignments to the flag with ten operand values, at top level and "
    "inside functions, followed by binding attempts; Hypothesis-generated "
    "compositions of these; then a reachability walk over all environments, "
    "closures, objects and module environments. Oracle: no forbidden event, "
    "canary unchanged, no function of a class in D (and no `run`) reachable, "
    "base flag still TRUE. Non-trivial = secure program whose twin run in a "
    "non-secure interpreter on a scratch canary does cause a forbidden event."
)
ASSUMPTIONS = [
    "permitted file access: reading / stat-ing *.ckl module sources in the "
    "bundled module directory and in ~/.ckl/modules (no host module path is "
    "configured), Python's "
    "own imports (*.py, *.pyc), time-zone data",
    "get_env and the PS/LS/FS/OS_* constants are not in the statement's list "
    "and are ignored",
]

# ------------------------------------------------------------------ monitor

EVENTS = []
STATE = {"active": False, "installed": False}
PERMIT_SUFFIX = (".py", ".pyc")
PERMIT_PREFIX = ("/usr/share/zoneinfo", "/etc/localtime", "/proc/self")
FORBIDDEN_AUDIT = {
    "open", "os.listdir", "os.scandir", "os.mkdir", "os.remove", "os.rmdir",
    "os.rename", "os.system", "os.exec", "os.posix_spawn", "os.spawn",
    "os.fork", "os.forkpty", "subprocess.Popen", "shutil.copyfile",
    "shutil.copymode", "shutil.copystat", "shutil.copytree", "shutil.move",
    "shutil.rmtree", "os.chmod", "os.chown", "os.link", "os.symlink",
    "os.truncate", "os.utime", "os.walk", "glob.glob", "os.chdir",
    "os.putenv", "os.kill", "pty.spawn",
}


def _module_dirs():
    """Where `require` may read module sources: the bundled modules and the
    user's ~/.ckl/modules (no host module path is configured here)."""
    import ckl
    dirs = [os.path.join(os.path.dirname(os.path.abspath(ckl.__file__)),
                         "modules")]
    home = os.environ.get("HOME")
    if home:
        dirs.append(os.path.join(home, ".ckl", "modules"))
    return [os.path.realpath(d) for d in dirs]


def _permitted_path(p):
    try:
        p = os.fspath(p)
    except TypeError:
        return False
    if isinstance(p, bytes):
        p = p.decode("utf-8", "replace")
    if p.endswith(".ckl"):
        # a module source - but only from a module directory (the monitor
        # must not log its own path look-ups)
        was = STATE["active"]
        STATE["active"] = False
        try:
            d = os.path.realpath(os.path.dirname(os.path.abspath(p)))
            return d in _module_dirs()
        except (OSError, ValueError):
            return False
        finally:
            STATE["active"] = was
    return p.endswith(PERMIT_SUFFIX) or p.startswith(PERMIT_PREFIX) \
        or "__pycache__" in p


def _log(kind, detail, path=None):
    if not STATE["active"]:
        return
    if path is not None and _permitted_path(path):
        return
    EVENTS.append((kind, str(detail)[:120]))


def _audit(event, args):
    if not STATE["active"]:
        return
    if event in FORBIDDEN_AUDIT:
        path = args[0] if args else None
        if event == "open":
            if isinstance(path, int):
                return
            _log("audit:open", args[:2], path)
        elif event in ("os.listdir", "os.scandir", "os.mkdir", "os.remove",
                       "os.rmdir", "os.rename", "os.chdir"):
            _log("audit:" + event, args[:2], path if event in (
                "os.listdir", "os.scandir") and False else None)
        else:
            _log("audit:" + event, args[:2])


def _wrap(mod, name, path_arg=0):
    orig = getattr(mod, name)

    def wrapper(*a, **kw):
        if STATE["active"]:
            p = a[path_arg] if len(a) > path_arg else None
            if not isinstance(p, int) and not (
                    p is not None and _permitted_path(p)):
                EVENTS.append((f"call:{mod.__name__}.{name}", repr(p)[:100]))
        return orig(*a, **kw)
    wrapper.__wrapped__ = orig
    setattr(mod, name, wrapper)


def install_monitor():
    if STATE["installed"]:
        return
    STATE["installed"] = True
    sys.addaudithook(_audit)
    for name in ("stat", "lstat", "listdir", "scandir", "mkdir", "makedirs",
                 "remove", "unlink", "rmdir", "rename", "replace", "system",
                 "access", "chdir", "walk", "readlink"):
        if hasattr(os, name):
            _wrap(os, name)
    for name in ("copy", "copy2", "copyfile", "move", "rmtree", "copytree",
                 "which"):
        _wrap(shutil, name)
    for name in ("run", "Popen", "call", "check_output", "check_call"):
        _wrap(subprocess, name)
    _wrap(builtins, "open")
    _wrap(io, "open")


class Monitored:
    def __enter__(self):
        install_monitor()
        del EVENTS[:]
        STATE["active"] = True
        return self

    def __exit__(self, *exc):
        STATE["active"] = False
        self.events = list(EVENTS)
        return False


# -------------------------------------------------------------------- canary

SCRIPT = ("def marker = 1; def f = file_output('pwned_by_script.txt'); "
          "print('x', f); close(f); 1\n")


class Canary:
    def __init__(self):
        self.root = tempfile.mkdtemp(prefix="vf_canary_")
        self.home = os.path.join(self.root, "home")
        self.dir = os.path.join(self.root, "work")
        os.makedirs(self.home)
        os.makedirs(os.path.join(self.dir, "sub"))
        self._w("secret.txt", "top secret\n")
        self._w("victim.txt", "delete me\n")
        self._w(os.path.join("sub", "inner.txt"), "inner\n")
        self._w("script.ckl", SCRIPT)
        self.before = self.snapshot()

    def _w(self, rel, text):
        with open(os.path.join(self.dir, rel), "w") as f:
            f.write(text)

    def snapshot(self):
        snap = {}
        for base, dirs, files in os.walk(self.dir):
            for d in dirs:
                snap[os.path.relpath(os.path.join(base, d), self.dir) + "/"] = None
            for fn in files:
                p = os.path.join(base, fn)
                with open(p, "rb") as f:
                    snap[os.path.relpath(p, self.dir)] = f.read()
        return snap

    def changed(self):
        return self.snapshot() != self.before

    def enter(self):
        self.old_cwd = os.getcwd()
        self.old_home = os.environ.get("HOME")
        os.chdir(self.dir)
        os.environ["HOME"] = self.home

    def leave(self):
        os.chdir(self.old_cwd)
        if self.old_home is None:
            os.environ.pop("HOME", None)
        else:
            os.environ["HOME"] = self.old_home
        shutil.rmtree(self.root, ignore_errors=True)


# Argument shapes (source text), chosen to make each OS-touching native act.
ARG_SHAPES = [
    "'secret.txt'",
    "'sub'",
    "'victim.txt', 'moved.txt'",
    "'newdir'",
    "'script.ckl'",
    "'/bin/true', []",
    "'touch', ['pwned.txt']",
    "'true'",
    "'.'",
    "'secret.txt', 'utf-8'",
    "'out.txt', 'utf-8', TRUE",
    "'.', TRUE",
    "",
]


def native_names():
    import ckl.functions as cf
    src = inspect.getsource(cf.bind_native)
    return sorted(set(re.findall(r'native == "(\w+)"', src)))


def module_names():
    import ckl
    d = os.path.join(os.path.dirname(ckl.__file__), "modules")
    out = []
    for fn in sorted(os.listdir(d)):
        if fn.endswith(".ckl") and fn not in ("base.ckl", "legacy.ckl"):
            out.append(fn[:-4])
    return out


_CAP = {"bitwise": "Bitwise", "core": "Core", "date": "Date", "io": "IO",
        "list": "List", "math": "Math", "os": "OS", "predicate": "Predicate",
        "random": "Random", "set": "Set", "stat": "Stat", "string": "String",
        "sys": "Sys", "type": "Type"}


def run_program(src, secure, legacy, canary, budget=10.0):
    """Interpret src in a fresh interpreter inside the canary, monitored.
    Returns (outcome kind, events, canary_changed, interpreter)."""
    from ckl.interpreter import Interpreter
    from ckl.errors import CklRuntimeError, CklSyntaxError
    canary.enter()
    try:
        it = Interpreter(secure, legacy)
        it.setStandardOutput(io.StringIO())
        it.setStandardInput(io.StringIO(""))
        kind = "value"
        with Monitored() as mon:
            try:
                with time_limit(budget):
                    it.interpret(src, "attack.ckl")
            except CklRuntimeError:
                kind = "error"
            except CklSyntaxError:
                kind = "syntax"
            except CaseTimeout:
                kind = "timeout"
            except BaseException as e:
                kind = "host:" + type(e).__name__
        changed = canary.changed()
        return kind, mon.events, changed, it
    finally:
        canary.leave()


def dangerous_classes():
    """Ground truth D: ValueFunc subclasses whose call, in a non-secure
    interpreter inside a scratch canary, causes a forbidden event."""
    import ckl.functions as cf
    from ckl.values import ValueFunc
    from ckl.interpreter import Interpreter
    from ckl.errors import CklRuntimeError, CklSyntaxError
    D = {}
    classes = [c for c in vars(cf).values()
               if isinstance(c, type) and issubclass(c, ValueFunc)
               and c is not ValueFunc and c.__name__ != "FuncLambda"]
    for cls in sorted(classes, key=lambda c: c.__name__):
        hit = None
        canary = Canary()
        canary.enter()
        try:
            it = Interpreter(False, True)
            it.setStandardOutput(io.StringIO())
            it.setStandardInput(io.StringIO(""))
            try:
                fn = cls(it) if cls.__name__ == "FuncRun" else cls()
            except Exception:
                continue
            it.environment.put("victim_fn", fn)
            for shape in ARG_SHAPES:
                with Monitored() as mon:
                    try:
                        with time_limit(10):
                            it.interpret(f"victim_fn({shape})", "gt.ckl")
                    except (CklRuntimeError, CklSyntaxError, CaseTimeout):
                        pass
                    except BaseException:
                        pass
                if mon.events or canary.changed():
                    hit = (shape, mon.events[:2])
                    break
        finally:
            canary.leave()
        if hit:
            D[cls.__name__] = hit
    return D


def reachable_functions(it):
    """All function values reachable from the interpreter's environments."""
    from ckl import values as cv
    import ckl.functions as cf
    seen = set()
    found = []
    stack = [it.base_environment, it.environment]
    for menv in it.base_environment.modules.values():
        stack.append(menv)
    while stack:
        x = stack.pop()
        if id(x) in seen:
            continue
        seen.add(id(x))
        if isinstance(x, cf.Environment):
            for k, v in x.map.items():
                stack.append(v)
            if x.parent is not None:
                stack.append(x.parent)
        elif isinstance(x, cv.ValueFunc):
            found.append(x)
            env = getattr(x, "lexicalEnv", None)
            if env is not None:
                stack.append(env)
            interp = getattr(x, "interpreter", None)
            if interp is not None:
                stack.append(interp.base_environment)
        elif isinstance(x, (cv.ValueList, cv.ValueSet)):
            stack.extend(list(x.value))
        elif isinstance(x, cv.ValueMap):
            stack.extend(list(x.value.keys()))
            stack.extend(list(x.value.values()))
        elif isinstance(x, cv.ValueObject):
            stack.extend(list(x.value.values()))
    return found


_D_CACHE = {}


def get_D():
    if "D" not in _D_CACHE:
        _D_CACHE["D"] = dangerous_classes()
    return _D_CACHE["D"]


def check_secure(src, legacy, label):
    """Run src in a secure interpreter; returns Finding or None."""
    D = get_D()
    canary = Canary()
    if "@REL@" in src or "@ABS@" in src:
        import ckl
        moddir = os.path.join(os.path.dirname(os.path.abspath(ckl.__file__)),
                              "modules")
        target = os.path.join(os.path.realpath(canary.dir), "script")
        src = src.replace("@REL@", os.path.relpath(target, moddir)) \
                 .replace("@ABS@", target.lstrip("/"))
    kind, events, changed, it = run_program(src, True, legacy, canary)
    if kind.startswith("host:") and False:
        pass
    if events:
        return Finding(f"C09|forbidden-event|{label}",
                       f"secure interpreter (legacy={legacy}) ran\n  {src}\n"
                       f"  and caused {events[:3]}")
    if changed:
        return Finding(f"C09|canary-changed|{label}",
                       f"secure interpreter (legacy={legacy}) ran\n  {src}\n"
                       f"  and changed the canary directory")
    bad = [f for f in reachable_functions(it)
           if type(f).__name__ in D or type(f).__name__ == "FuncRun"]
    if bad:
        names = sorted({type(f).__name__ for f in bad})
        return Finding(f"C09|dangerous-function-reachable|{label}",
                       f"after\n  {src}\n  in a secure interpreter "
                       f"(legacy={legacy}) these functions are reachable: "
                       f"{names}")
    flag = it.base_environment.map.get("checkerlang_secure_mode")
    if flag is None or getattr(flag, "value", None) is not True:
        return Finding(f"C09|secure-flag-changed|{label}",
                       f"after\n  {src}\n  the base flag is {flag!r}")
    return None


def has_teeth(src, legacy):
    """Twin run in a non-secure interpreter on a scratch canary."""
    canary = Canary()
    kind, events, changed, _ = run_program(src, False, legacy, canary)
    return bool(events) or changed


def prop(case):
    return check_secure(case["src"], case["legacy"], case["label"])


# ------------------------------------------------------------------ programs

def guarded(stmt):
    return f"do {stmt} catch all NULL end"


def calls(name):
    return "; ".join(guarded(f"{name}({shape})") for shape in ARG_SHAPES)


def bind_programs(name):
    yield ("bind", f"{guarded(f'bind_native({name!r})')}; {calls(name)}")
    al = "al_" + name
    yield ("bind-alias",
           f"{guarded(f'bind_native({name!r}, {al!r})')}; {calls(al)}; "
           f"{calls(name)}")
    yield ("bind-in-function",
           f"def g() do {guarded(f'bind_native({name!r})')}; "
           f"{calls(name)} end; g()")


FLAG_ATTACKS = [
    "def checkerlang_secure_mode = FALSE",
    "checkerlang_secure_mode = FALSE",
    "checkerlang_secure_mode += 1",
    "def [checkerlang_secure_mode] = [FALSE]",
    "[checkerlang_secure_mode] = [FALSE]",
    "def [a, checkerlang_secure_mode] = [1, FALSE]",
    "def checkerlang_secure_mode = NULL",
    "def checkerlang_secure_mode = 0",
    "def class checkerlang_secure_mode do def x = 1 end",
    "require Math as checkerlang_secure_mode",
    "require Math import [abs as checkerlang_secure_mode]",
    "eval('def checkerlang_secure_mode = FALSE')",
    "eval('checkerlang_secure_mode = FALSE')",
    "def e = 'checkerlang_secure_mode = FALSE'; eval(e)",
    "put(<<<>>>, 'checkerlang_secure_mode', FALSE)",
    "def o = <*checkerlang_secure_mode = FALSE*>",
    "def checkerlang_secure_mode = FALSE; def checkerlang_secure_mode = FALSE",
    "remove(ls(), 'checkerlang_secure_mode')",
    "def NULL = 0; def checkerlang_secure_mode = NULL",
    "def TRUE_ = FALSE; def checkerlang_secure_mode = TRUE_",
    "def bind_native = bind_native; def checkerlang_secure_mode = FALSE",
]
FLAG_WRAPPERS = [
    "{A}; {B}",
    "{A}; def g() do {B} end; g()",
    "for checkerlang_secure_mode in [FALSE] do {B} end",
    "[do {B}; 1 end for checkerlang_secure_mode in [FALSE]]",
    "<<do {B}; 1 end for checkerlang_secure_mode in [FALSE]>>",
    "(fn(checkerlang_secure_mode) do {B} end)(FALSE)",
    "(fn(checkerlang_secure_mode = FALSE) do {B} end)()",
    "def g(checkerlang_secure_mode) do {B} end; g(FALSE)",
    "def g() do def checkerlang_secure_mode = FALSE; {B} end; g()",
    "do error 1 catch all do def checkerlang_secure_mode = FALSE; {B} end end",
    "def o = <*m(self) do def checkerlang_secure_mode = FALSE; {B} end*>; o->m()",
    "for [checkerlang_secure_mode, q] in [[FALSE, 1]] do {B} end",
]
PAYLOADS = ["file_delete", "file_output", "execute", "list_dir", "make_dir",
            "file_input", "file_move", "file_copy", "file_exists",
            "file_info", "run"]


def flag_programs():
    for payload in PAYLOADS:
        B = f"{guarded(f'bind_native({payload!r})')}; {calls(payload)}"
        for a in FLAG_ATTACKS:
            yield ("flag:" + a[:40], f"{guarded(a)}; {B}")
        for w in FLAG_WRAPPERS:
            if "{A}" in w:
                continue
            yield ("wrap:" + w[:40], w.replace("{B}", B))


ASSIGN_OPS = ["+=", "-=", "*=", "/=", "%=", "="]
ASSIGN_OPERANDS = ["''", "'x'", "0", "1", "-1", "2.5", "NULL", "[]", "FALSE",
                   "TRUE"]
ASSIGN_TARGETS = ["checkerlang_secure_mode {op} {v}",
                  "[checkerlang_secure_mode] {op} [{v}]"]


def assign_steps():
    for op in ASSIGN_OPS:
        for v in ASSIGN_OPERANDS:
            yield f"checkerlang_secure_mode {op} {v}"
    for v in ("FALSE", "''", "0"):
        yield f"[checkerlang_secure_mode] = [{v}]"
        yield f"def g() checkerlang_secure_mode *= {v}; g()"
        yield f"(fn() checkerlang_secure_mode += {v})()"


def assign_programs():
    """Every one- and two-step sequence of (compound) assignments to the
    flag: a step that leaves a truthy non-boolean in the flag can enable a
    second step that makes it falsy."""
    B = (f"{guarded('bind_native(' + repr('file_input') + ')')}; "
         f"{calls('file_input')}; {guarded('bind_native(' + repr('make_dir') + ')')}; "
         f"{calls('make_dir')}")
    steps = list(assign_steps())
    for a in steps:
        yield ("assign1:" + a[:40], f"{guarded(a)}; {B}")
    for a in steps:
        for b in steps:
            yield ("assign2", f"{guarded(a)}; {guarded(b)}; {B}")


def traversal_programs():
    """Module specs that try to leave the module directories: the canary's
    work directory (the cwd) holds script.ckl."""
    import ckl
    moddir = os.path.join(os.path.dirname(os.path.abspath(ckl.__file__)),
                          "modules")
    specs = []
    for depth in range(0, 12):
        up = "../" * depth
        specs += [f"{up}script", f"{up}work/script", f"./{up}script",
                  f"{up}script.ckl"]
    # from the package's module directory to the cwd (resolved at run time
    # inside the canary, see _run_list)
    specs += ["@REL@", "@REL@.ckl", "@ABS@", "@ABS@.ckl", "/@ABS@",
              "script", "./script", "work/../script", "sub/../script",
              "Math/../../script", "math/../@REL@"]
    for sp in specs:
        for form in ('require "{s}" as ev; ev->marker',
                     'require "{s}" unqualified; marker',
                     'require "{s}" import [marker]; marker',
                     'def m = "{s}"; require m as ev; ev->marker',
                     'def f() do require "{s}" as ev; ev->marker end; f()'):
            yield ("traversal", guarded(form.format(s=sp)))


def module_programs(legacy):
    from ckl.interpreter import Interpreter
    it = Interpreter(False, True)
    for mname, menv in sorted(it.base_environment.modules.items()):
        for sym in sorted(menv.getLocalSymbols()):
            if sym.startswith("_"):
                continue
            yield (f"module:{mname}->{sym}",
                   f"{guarded('require ' + mname)}; "
                   + "; ".join(guarded(f"{mname}->{sym}({sh})")
                               for sh in ARG_SHAPES))
            yield (f"unqualified:{mname}:{sym}",
                   f"{guarded('require ' + mname + ' unqualified')}; "
                   + calls(sym))
            yield (f"import:{mname}:{sym}",
                   f"{guarded('require ' + mname + ' import [' + sym + ' as zz]')}; "
                   + calls("zz"))


# --------------------------------------------------------------------- parts

def _run_list(part, programs, legacy, teeth_every=1):
    k = 0
    for label, src in programs:
        k += 1
        part.count()
        f = check_secure(src, legacy, label.split(":")[0])
        part.cls(("legacy:" if legacy else "base:") + label.split(":")[0])
        case = {"kind": "secure", "src": src, "legacy": legacy,
                "label": label.split(":")[0]}
        part.collect(f, case)
        if k % teeth_every == 0:
            if has_teeth(src, legacy):
                part.nontriv((src, legacy))
                part.cls("twin-causes-forbidden-event", src if k % 40 == 0
                         else None)
            else:
                part.cls("twin-harmless")


def part_groundtruth(part):
    D = get_D()
    part.count(len(D))
    part.distinct(len(D))
    part.note("dangerous_classes", sorted(D))
    part.cls("groundtruth", sorted(D))
    expected = {"FuncExecute", "FuncFileInput", "FuncFileOutput",
                "FuncFileCopy", "FuncFileDelete", "FuncFileExists",
                "FuncFileInfo", "FuncFileMove", "FuncListDir", "FuncMakeDir",
                "FuncRun"}
    missing = expected - set(D)
    if missing:
        # the monitor itself is blind to something it must see: harness bug
        raise RuntimeError(f"monitor did not flag {sorted(missing)}")


def part_bind(part, legacy, shard, nshards):
    names = native_names()
    progs = []
    for i, n in enumerate(names):
        if i % nshards == shard:
            progs += list(bind_programs(n))
    _run_list(part, progs, legacy)
    part.exhaustive = True


def part_flag(part, legacy, shard, nshards):
    progs = [p for i, p in enumerate(flag_programs()) if i % nshards == shard]
    _run_list(part, progs, legacy)
    part.exhaustive = True


def part_assign(part, legacy, shard, nshards):
    progs = [p for i, p in enumerate(assign_programs())
             if i % nshards == shard]
    _run_list(part, progs, legacy, teeth_every=97)
    part.exhaustive = True


def part_traversal(part, legacy):
    _run_list(part, list(traversal_programs()), legacy, teeth_every=10 ** 9)
    part.exhaustive = True


def part_modules(part, legacy, shard, nshards):
    progs = [p for i, p in enumerate(module_programs(legacy))
             if i % nshards == shard]
    _run_list(part, progs, legacy, teeth_every=1)
    part.exhaustive = True


def part_random(part, n):
    names = native_names()
    attacks = FLAG_ATTACKS
    wrappers = FLAG_WRAPPERS

    def body(tape):
        ch = TapeChooser(tape)
        legacy = ch.bool()
        stmts = []
        for _ in range(ch.int(1, 4)):
            k = ch.int(0, 4)
            name = ch.choice(PAYLOADS if ch.bool(0.7) else names)
            bind = guarded(f"bind_native({name!r})") if ch.bool(0.7) else \
                guarded(f"bind_native({name!r}, 'zz')") + "; " + calls("zz")
            B = f"{bind}; {calls(name)}"
            if k == 0:
                stmts.append(guarded(ch.choice(attacks)))
                stmts.append(B)
            elif k == 1:
                w = ch.choice([w for w in wrappers if "{A}" not in w])
                stmts.append(w.replace("{B}", B))
            elif k == 2:
                m = ch.choice(["IO", "OS", "Sys", "Core"])
                stmts.append(guarded(f"require {m} unqualified"))
                stmts.append(B)
            elif k == 3:
                inner = (guarded(ch.choice(attacks)) + "; " + B) \
                    .replace("\\", "\\\\").replace("'", "\\'")
                stmts.append(guarded(f"eval('{inner}')"))
            else:
                stmts.append(f"def h = fn() do {B} end; h()")
        src = "; ".join(stmts)
        part.count()
        if has_teeth(src, legacy):
            part.nontriv((src, legacy))
        part.cls("random:" + ("legacy" if legacy else "base"),
                 src if len(src) < 400 else None)
        f = check_secure(src, legacy, "random")
        if f:
            return f, {"kind": "secure", "src": src, "legacy": legacy,
                       "label": "random"}
    part.hyp(tapes(200), body, n, shrink=False)


def parts(tier, seed):
    get_D()     # computed once in the parent, inherited by the forked workers
    ps = [("groundtruth", part_groundtruth, {})]
    for legacy in (True, False):
        tag = "L" if legacy else "B"
        ps += [(f"bind-{tag}{i}", part_bind,
                {"legacy": legacy, "shard": i, "nshards": 3})
               for i in range(3)]
        ps += [(f"flag-{tag}{i}", part_flag,
                {"legacy": legacy, "shard": i, "nshards": 2})
               for i in range(2)]
        ps += [(f"assign-{tag}{i}", part_assign,
                {"legacy": legacy, "shard": i, "nshards": 6})
               for i in range(6)]
        ps += [(f"traversal-{tag}", part_traversal, {"legacy": legacy})]
        ps += [(f"modules-{tag}{i}", part_modules,
                {"legacy": legacy, "shard": i, "nshards": 3})
               for i in range(3)]
    if tier == "quick":
        ps += [(f"random-{i}", part_random, {"n": 60}) for i in range(3)]
    else:
        ps += [(f"random-{i}", part_random, {"n": 3000}) for i in range(8)]
    return ps
