"""Property-based testing / fuzzing machinery for checkerlang-py (see DESIGN.md)."""
