#!/usr/bin/env python
"""Reproductions for the second C11 hunt (require binds exactly the requested
names, modules are evaluated once).  Run with
  cd /tmp/seed4/C11 && PYTHONPATH=/tmp/seed4/C11/src /venv/bin/python hunt/repro.py
"""
import os
import shutil
import signal
import tempfile

from ckl.interpreter import Interpreter
from ckl.errors import CklRuntimeError, CklSyntaxError
from ckl.values import ValueList, ValueString

TMPDIRS = []


class Timeout(Exception):
    pass


def _alarm(signum, frame):
    raise Timeout()


signal.signal(signal.SIGALRM, _alarm)


def mk(mods, legacy):
    d = tempfile.mkdtemp(prefix="c11_")
    TMPDIRS.append(d)
    for n, src in mods.items():
        with open(os.path.join(d, n + ".ckl"), "w", encoding="utf-8") as f:
            f.write(src)
    it = Interpreter(secure=False, legacy=legacy)
    mp = ValueList()
    mp.addItem(ValueString(d))
    it.base_environment.put("checkerlang_module_path", mp)
    it.dir = d
    return it


def run(it, src):
    signal.alarm(10)
    try:
        return "OK " + str(it.interpret(src, "main.ckl"))
    except CklRuntimeError as e:
        return "RTE " + str(e.msg)
    except CklSyntaxError as e:
        return "SYN " + str(e.msg)
    except Timeout:
        return "TIMEOUT"
    except Exception as e:  # noqa
        return "PYEXC " + type(e).__name__ + ": " + str(e)
    finally:
        signal.alarm(0)


def scope(it):
    return sorted(it.environment.map.keys())


SHAPES = ('def class Shape do '
          'def _init_(self, n) self->n = n; '
          'def area(self) 0; '
          'def name(self) self->n; '
          'def kind = "shape"; '
          'end; '
          'def make(n) new(Shape, n);')


def f1(legacy):
    # the module's top-level definitions are Shape and make; the members of
    # the class (area, name, kind) are exported as if they were top-level
    # definitions of the module, in every import form
    it = mk({"shapes": SHAPES}, legacy)
    r1 = run(it, 'def name = "mine"; require shapes unqualified; name')
    s1 = scope(it)
    it2 = mk({"shapes": SHAPES}, legacy)
    r2 = run(it2, 'require shapes import [area as leaked_area, kind]; kind')
    s2 = scope(it2)
    it3 = mk({"shapes": SHAPES}, legacy)
    run(it3, 'require shapes; 1')
    keys = sorted(it3.environment.map["shapes"].value.keys())
    bad = (set(s1) != {"Shape", "make", "name"} or r1 != "OK 'mine'"
           or s2 != [] or keys != ["Shape", "make"])
    return bad, (f"unqualified: {r1} scope={s1} | import: {r2} scope={s2} "
                 f"| object members={keys}")


def f2(legacy):
    # module code reads a variable of the importer and defines a name in the
    # importer's scope by way of run()
    it = mk({}, legacy)
    peek = os.path.join(it.dir, "peek.txt")
    with open(peek, "w", encoding="utf-8") as f:
        f.write('def injected = 1; secret')
    with open(os.path.join(it.dir, "r.ckl"), "w", encoding="utf-8") as f:
        f.write('def got = run("' + peek + '");')
    r = run(it, 'def secret = 42; require r; r->got')
    s = scope(it)
    return r == "OK 42" or "injected" in s, f"{r} scope={s}"


# repaired items of the first report, expected to hold now
PREV = {"a": 'def x = 1; def f() x;',
        "counter": 'def counter = 0; def inc() do counter += 1; counter end;',
        "sum": 'def v = 1;',
        "c1": 'require c2; def v = 1;', "c2": 'require c1; def v = 2;'}


def f3(legacy):
    res = []
    it = mk(PREV, legacy)
    r = run(it, 'require a import [x as b1, x as c1]; 1')
    res.append(r == "OK 1" and scope(it) == ["b1", "c1"])
    it = mk(PREV, legacy)
    r = run(it, 'require a import []; 1')
    res.append(r == "OK 1" and scope(it) == [])
    it = mk(PREV, legacy)
    r = run(it, 'require counter unqualified; require counter unqualified; 1')
    res.append(r == "OK 1")
    it = mk(PREV, legacy)
    res.append(run(it, 'require sum; sum->v') == "OK 1")
    it = mk(PREV, legacy)
    r = run(it, 'do require c1; catch all 0; end; require a; a->x')
    res.append(r == "OK 1")
    return not all(res), f"checks={res}"


FINDINGS = [
    (1, f1, "members of a class defined in a module are exported as module symbols (unqualified / import / module object)"),
    (2, f2, "module code reads importer variables and defines importer names through run() (doubtful)"),
    (3, f3, "re-check of the repaired items of the first report (import list aliases, empty list, self-named symbol, module named like a function, stack after a failed require)"),
]

if __name__ == "__main__":
    try:
        for n, fn, desc in FINDINGS:
            viol = False
            details = []
            for legacy in (True, False):
                try:
                    signal.alarm(20)
                    v, d = fn(legacy)
                except Timeout:
                    v, d = True, "TIMEOUT"
                except Exception as e:  # noqa
                    v, d = True, "PYEXC " + type(e).__name__ + ": " + str(e)
                finally:
                    signal.alarm(0)
                viol = viol or v
                details.append(("legacy" if legacy else "base") + ": " + d)
            print(f"FINDING {n}: {'VIOLATES' if viol else 'HOLDS'} {desc} [{' || '.join(details)}]")
    finally:
        for d in TMPDIRS:
            shutil.rmtree(d, ignore_errors=True)
