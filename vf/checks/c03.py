"""C03  Names resolve lexically and calls bind arguments as declared."""
from vf.core import Finding
from vf.gen.chooser import TapeChooser, tapes
from vf.gen import render as R
from vf.gen import programs as G
from vf.model import eval as ME
from vf.checks.c04 import outcome_of, judge, kills

PROPERTY = "C03"
RULE = (
    "Hypothesis-generated programs composed of randomised scenario fragments, "
    "each instantiated with names from a pool of four (forcing shadowing) and "
    "wrapped in 0-3 extra function scopes: (T1) a free variable read by a "
    "function (or a closure returned from a factory) called from a scope "
    "that re-defines the name; (T2) assignment / compound assignment from a "
    "callee or a nested function to a name bound in its defining and its "
    "calling scope, assignment to an unbound name, def in a function; (T3) "
    "counters, curried and composed functions, closures over parameters, "
    "called after their frame ended, two instances side by side; (T4) "
    "recursion with re-assigned parameters; (T5) defaults referring to a "
    "global that changes between definition and call, to earlier parameters "
    "and with side effects; (T6) the argument-binding matrix {positional, "
    "named, default, rest, list spread, map spread} x {too few, exact, "
    "surplus}; (T7) pipeline calls and method calls through _proto_ chains "
    "of length 3. Every fragment logs what it observes. Oracle: the "
    "reference evaluator. Non-trivial = program whose outcome differs under "
    "at least one of 12 mutant models (dynamic scoping, assignment creates a "
    "local, def updates an outer binding, shared parameter frames, defaults "
    "at definition time / in the caller's scope, positionals bound first, "
    "rest drops an element, spread not in place, pipeline inserts last, "
    "method without receiver, no prototype walk)."
)
ASSUMPTIONS = [
    "not generated because unspecified: loop/comprehension variables "
    "captured by closures, duplicate parameter names, positional after named "
    "arguments, non-string keys in a spread map",
]
MUTANTS = ["dynamic-scope", "assign-creates-local", "def-updates-outer",
           "shared-params", "default-at-definition",
           "default-in-caller-scope", "positional-first", "rest-drops-first",
           "spread-not-in-place", "pipe-inserts-last",
           "method-without-receiver", "no-proto-walk"]


# ---- callbacks handed to built-ins are bound like any other call

def _lit(xs):
    return "[" + ", ".join(str(x) for x in xs) + "]"


def callback_cases(xs, v):
    """(label, program, expected value as the model sees it)"""
    asc = sorted(xs)
    desc = sorted(xs, key=lambda x: -x)
    idx = xs.index(v) if v in xs else -1
    L = _lit(xs)
    return [
        ("find-key-rest", f"find({L}, [{v}], key = fn(r...) r...)", idx),
        ("find-last-key-rest",
         f"find_last({L}, [{v}], key = fn(r...) r...)",
         (len(xs) - 1 - xs[::-1].index(v)) if v in xs else -1),
        ("sorted-key-rest", f"sorted({L}, key = fn(r...) 0 - r...[0])", desc),
        ("sorted-cmp-rest",
         f"sorted({L}, cmp = fn(r...) compare(r...[0], r...[1]))", asc),
        ("sorted-cmp-one-plus-rest",
         f"def seen = []; def s = sorted({L}, cmp = fn(a, r...) do "
         f"append(seen, length(r...)); compare(a, r...[0]) end); "
         f"[s, length(seen) > 0 or length(s) < 2, "
         f"[n for n in seen if n != 1]]",
         [asc, True, []]),
        ("sorted-key-default", f"sorted({L}, key = fn(a, b = 100) a + b)",
         asc),
        ("sorted-key-named-rest",
         f"sorted({L}, key = fn(x, r...) [x, length(r...)])", asc),
        ("user-higher-order",
         f"def ap(f, x, y) f(x, y); ap(fn(a, r...) [a, r...], {v}, 2)",
         [v, [2]]),
    ]


def callback_prop(label, src, want):
    from vf import cklrun
    from vf.model import values as mv
    out = cklrun.run(src, budget=20)
    if out[0] != "value":
        return Finding(f"C03|callback-binding|{label}|{out[0]}",
                       f"{src} -> {cklrun.short(out)}; expected {want!r}")
    got = cklrun.to_model(out[1])
    if not (mv.meq(got, want) and mv.deep_type(got) == mv.deep_type(want)):
        return Finding(f"C03|callback-binding|{label}",
                       f"{src} -> {got!r}; expected {want!r}")
    return None


def part_callbacks(part, n):
    def body(tape):
        ch = TapeChooser(tape)
        xs = [ch.int(-3, 6) for _ in range(ch.int(0, 6))]
        v = ch.choice(xs) if xs and ch.bool(0.7) else ch.int(-3, 6)
        for label, src, want in callback_cases(xs, v):
            part.count()
            part.nontriv(src)
            part.cls("callback:" + label, src)
            f = callback_prop(label, src, want)
            if f:
                return f, {"kind": "callback", "xs": xs, "v": v,
                           "label": label}
    part.hyp(tapes(40), body, n)


def prop(case):
    if case.get("kind") == "callback":
        for label, src, want in callback_cases(case["xs"], case["v"]):
            if label == case["label"]:
                return callback_prop(label, src, want)
        return None
    import ast as _ast
    stmts = _ast.literal_eval(case["ast"])
    m = ME.model_run(stmts)
    if m[0] in ("unspecified", "budget"):
        return None
    src = R.source(stmts)
    return judge(PROPERTY, src, m, outcome_of(src))


def part_programs(part, n):
    def body(tape):
        ch = TapeChooser(tape)
        g = G.ScopeGen(ch)
        stmts = g.program()
        m = ME.model_run(stmts)
        part.count()
        if m[0] in ("unspecified", "budget"):
            part.excluded["discarded:" + str(m[1:])[:60]] += 1
            part.cls("discarded:" + m[0])
            return None
        src = R.source(stmts)
        killed = kills(stmts, m, MUTANTS)
        for k in killed:
            part.cls("kills:" + k)
        if killed:
            part.nontriv(src)
        part.cls("program:" + m[0], src if len(src) < 500 else None)
        for f in sorted(g.features):
            part.cls("feature:" + f)
        f = judge(PROPERTY, src, m, outcome_of(src))
        if f:
            return f, {"kind": "program", "ast": repr(stmts)}
    part.hyp(tapes(1200), body, n)


def parts(tier, seed):
    cb = [("callbacks", part_callbacks,
           {"n": 150 if tier == "quick" else 3000})]
    if tier == "quick":
        return cb + [(f"programs-{i}", part_programs, {"n": 1000})
                     for i in range(10)]
    return cb + [(f"programs-{i}", part_programs, {"n": 10000})
                 for i in range(12)]
