"""C17 third hunt - reproductions.

Run:  cd /tmp/seed5/C17 && PYTHONPATH=/tmp/seed5/C17/src /venv/bin/python hunt/repro.py
Prints one line per finding: FINDING <n>: <VIOLATES|HOLDS> <description>
FINDING 0 is the re-check of the items repaired after the first hunt (re-checked
by the second hunt as well); HOLDS means the repairs are in place.
"""
import datetime
import random
import signal

from ckl.interpreter import Interpreter
from ckl.errors import CklRuntimeError, CklSyntaxError


class Timeout(Exception):
    pass


def _alarm(signum, frame):
    raise Timeout()


signal.signal(signal.SIGALRM, _alarm)


def run(it, src):
    try:
        return str(it.interpret(src, "repro.ckl"))
    except CklRuntimeError as e:
        return "RTE: " + str(e.msg)
    except CklSyntaxError as e:
        return "SYN: " + str(e.msg)


def guarded(n, desc, probe, seconds=40):
    signal.alarm(seconds)
    try:
        violated, detail = probe()
    except Timeout:
        violated, detail = True, "timed out"
    except Exception as e:  # a host exception is a failure of its own
        violated, detail = True, "host exception " + repr(e)
    finally:
        signal.alarm(0)
    print("FINDING %d: %s %s%s" % (
        n, "VIOLATES" if violated else "HOLDS", desc,
        " [" + detail + "]" if detail else ""))


def finding0():
    bad = []
    for legacy in (True, False):
        it = Interpreter(secure=False, legacy=legacy)
        checks = [
            ("(date('20240101100000') + 30000) - date('20240101100000')", "30000"),
            ("(date('19890916000007') + 1) - date('19890916000007')", "1"),
            ("(date('19441025095901') + 58) - date('19441025095901')", "58"),
            ("int(date('1899122912'))", "-1"),
            ("int(date('1899123012'))", "0"),
            ("date(int(date('18000101120000')))", "18000101000000"),
            ("int(date(-5.25))", "-6"),
        ]
        for src, exp in checks:
            got = run(it, src)
            if got != exp:
                bad.append("%s => %s" % (src, got))
        big = "1" + "0" * 400
        for op in "+-":
            got = run(it, "date('20200101') %s %s" % (op, big))
            if not got.startswith("RTE"):
                bad.append("date %s 10^400 => %s" % (op, got))
    return bool(bad), "; ".join(bad)


def finding1():
    """A fractional offset that lands exactly on midnight gives 23:59:59(.999)
    of the previous day."""
    it = Interpreter(secure=False, legacy=False)
    fixed = [
        # program, what the statement / the calendar requires
        ("date('20180611043716') + 69764/86400.0", "20180612000000"),
        ("def d = date('20180611043716'); def e = date('20180612'); "
         "d + (e - d) == e", "TRUE"),
        ("def d = date('20180611043716'); def e = date('20180612'); "
         "(d + (e - d)) - d == e - d", "TRUE"),
        ("def d = date('20990127083038'); def e = date('20840723'); "
         "d + (e - d)", "20840723000000"),
    ]
    wrong = []
    for src, exp in fixed:
        got = run(it, src)
        if got != exp:
            wrong.append("%s => %s, expected %s" % (src, got, exp))
    # how often: seeded sample, d with a time of day, e at midnight
    rnd = random.Random(3)
    it.interpret("def f(d, e) d + (e - d) == e;", "setup.ckl")
    n = bad = 0
    for _ in range(400):
        d = datetime.datetime(rnd.randrange(1900, 2101), rnd.randrange(1, 13),
                              rnd.randrange(1, 29), rnd.randrange(24),
                              rnd.randrange(60), rnd.randrange(60))
        e = datetime.datetime(rnd.randrange(1900, 2101), rnd.randrange(1, 13),
                              rnd.randrange(1, 29))
        got = run(it, "f(date('%s'), date('%s'))" % (
            d.strftime("%Y%m%d%H%M%S"), e.strftime("%Y%m%d")))
        n += 1
        if got != "TRUE":
            bad += 1
    # control: e with a time of day never fails
    ctl = 0
    for _ in range(200):
        d = datetime.datetime(rnd.randrange(1900, 2101), rnd.randrange(1, 13),
                              rnd.randrange(1, 29), rnd.randrange(24),
                              rnd.randrange(60), rnd.randrange(60))
        e = datetime.datetime(rnd.randrange(1900, 2101), rnd.randrange(1, 13),
                              rnd.randrange(1, 29), rnd.randrange(1, 24),
                              rnd.randrange(60), rnd.randrange(60))
        got = run(it, "f(date('%s'), date('%s'))" % (
            d.strftime("%Y%m%d%H%M%S"), e.strftime("%Y%m%d%H%M%S")))
        if got != "TRUE":
            ctl += 1
    detail = "%d fixed examples wrong (%s); sample: d + (e - d) != e for %d of %d midnight targets, %d of 200 non-midnight targets" % (
        len(wrong), wrong[0] if wrong else "-", bad, n, ctl)
    return bool(wrong) or bad > 0, detail


guarded(0, "re-check: items repaired after the first hunt ((d+n)-d exact, int(date) before 1899-12-30, date +/- 10^400)", finding0)
guarded(1, "(doubtful) a fractional offset that lands exactly on midnight yields 23:59:59.999 of the previous day: d + (e - d) != e, (d + x) - d != x", finding1, seconds=80)
