"""Reproductions for the second C06 hunt.  Run with
   cd /tmp/seed4/C06 && PYTHONPATH=/tmp/seed4/C06/src /venv/bin/python hunt/repro.py
Prints one line per finding: FINDING <n>: <VIOLATES|HOLDS> <description>
(VIOLATES = the behaviour described in FINDINGS.md is still observed;
 findings 2 and 3 are re-checks of items repaired earlier and are expected to HOLD)."""
import signal
from ckl.interpreter import Interpreter
from ckl.errors import CklRuntimeError, CklSyntaxError


class Timeout(Exception):
    pass


def _alarm(signum, frame):
    raise Timeout()


signal.signal(signal.SIGALRM, _alarm)


def run(src, legacy=True):
    """returns ('ok', repr) / ('ckl', msg) / ('exc', text)"""
    it = Interpreter(secure=False, legacy=legacy)
    signal.setitimer(signal.ITIMER_REAL, 10, 1)   # repeating: cannot be swallowed
    try:
        return ("ok", repr(it.interpret(src, "repro.ckl")))
    except (CklRuntimeError, CklSyntaxError) as e:
        return ("ckl", str(e.msg))
    except Timeout:
        return ("exc", "timeout")
    except Exception as e:  # host exception leaking out of the interpreter
        return ("exc", type(e).__name__ + ": " + str(e))
    finally:
        signal.setitimer(signal.ITIMER_REAL, 0)


def check(n, desc, probes, modes=(True, False)):
    """probes: list of (source, expected-if-property-holds)."""
    bad = []
    for src, want in probes:
        for legacy in modes:
            got = run(src, legacy)
            if got != ("ok", want):
                bad.append((src, legacy, got))
                break
    print(f"FINDING {n}: {'VIOLATES' if bad else 'HOLDS'} {desc}")
    for src, legacy, got in bad:
        print(f"    {src}\n      legacy={legacy} -> {got[0]}: {got[1]}")


# 1. (doubtful) equal sets / maps are enumerated and rendered in different orders
# The order in which a host set hands out its elements depends on the hash of the
# date, which the host randomises per process: the set probes are therefore tried
# with 40 different dates (one program), the map probes are deterministic.
LOOP = ("def bad = 0; for i in range(40) do def d = date('20200101') + i; "
        "def s = <<3, 11, d>>; def t = <<11, 3, d>>; "
        "if s == t and not (%s) then bad += 1; end; bad")
D = "def d = date('20200101'); "
check(1, "(doubtful) two equal sets/maps (s == t is TRUE) enumerate and render differently: "
         "list(s) == list(t), string(s) == string(t), [...s] == [...t], sorted, comprehension are FALSE", [
    # 1a: same elements, other insertion order; ordering int/date is cyclic (3 < 11 < date < 3)
    (LOOP % "list(s) == list(t)", "0"),
    (LOOP % "string(s) == string(t)", "0"),
    (LOOP % "[x for x in s] == [x for x in t]", "0"),
    (LOOP % "[...s] == [...t]", "0"),
    (LOOP % "sorted(s) == sorted(t)", "0"),
    (D + "def s = <<<3 => 1, 11 => 1, identity(d) => 1>>>; def t = <<<11 => 1, 3 => 1, identity(d) => 1>>>; "
         "[s == t, string(s) == string(t)]", "[TRUE, TRUE]"),
    (D + "def s = <<<3 => 1, 11 => 1, identity(d) => 1>>>; def t = <<<11 => 1, 3 => 1, identity(d) => 1>>>; "
         "[s == t, list(set(s)) == list(set(t))]", "[TRUE, TRUE]"),
    # 1b: equal representatives (1 / 1.0) inside nested sets are ordered by their text
    ("def s = << <<1>>, <<10>> >>; def t = << <<1.0>>, <<10>> >>; [s == t, list(s) == list(t)]", "[TRUE, TRUE]"),
])

# 2. re-check of a repaired item: a function stays findable after `def g = f`
check(2, "re-check (repaired): a function used as set element / map key is still found after def g = f", [
    ("def f(x) x; def s = <<f>>; def m = <<<>>>; m[f] = 1; def g = f; [f in s, g in s, m[f], m[g], f == g]",
     "[TRUE, TRUE, 1, 1, TRUE]"),
])

# 3. re-check of a repaired item: Set functions outside legacy mode
check(3, "re-check (repaired): Set->union / symmetric_diff work outside legacy mode and respect 1 == 1.0", [
    ("require Set; [Set->union(<<1>>, [1.0, 2]), Set->symmetric_diff(<<1, 2>>, <<2.0, 3>>), "
     "Set->intersection(<<1, 2>>, [1.0]), Set->diff([1, 2, 2.0], <<2>>)]",
     "[<<1, 2>>, <<1, 3>>, <<1>>, <<1>>]"),
], modes=(False,))
