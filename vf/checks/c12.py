"""C12  Results do not depend on hash seeds, process or construction order."""
import json
import os
import subprocess
import sys
import tempfile

from vf.core import Finding
from vf.gen.chooser import TapeChooser, tapes
from vf.model import values as mv
from vf import cklrun
from vf.repo import VERIF_DIR

PROPERTY = "C12"
RULE = (
    "Hypothesis-generated programs define a set S, a second set S2 and a map "
    "M of >= 3 strings (or of mixed scalars: strings, ints, decimals, "
    "booleans, NULL) and send them through one of about 90 paths: for loops "
    "(plain, keys, values, entries, destructured), every comprehension form, "
    "list/set/map/object/string conversions, spreads in calls and list "
    "literals, destructuring def/assignment, rendering and print, + and - "
    "with collections, sorted, enumerate, every function of the base "
    "environment applied directly to the set / map in ten argument shapes "
    "(incl. key= / cmp= functions under which elements tie) and the "
    "collection functions of "
    "Core/List/Set/Stat/String/Random (with set_seed). Oracle (i): the batch "
    "is interpreted in 8 (thorough 32) fresh processes with different "
    "PYTHONHASHSEED values and in this process (seed 0); value rendering, "
    "stdout and error must be identical everywhere. Oracle (ii): permuting "
    "the element order of every collection literal leaves the outcome "
    "unchanged. Non-trivial = program whose strings are enumerated by the "
    "host in different orders under the seeds used (measured by the workers) "
    "and whose literals were permuted."
)
ASSUMPTIONS = [
    "clock- and environment-dependent built-ins are inputs and not generated",
    "excluded by construction (open finding): collections mixing dates with "
    "numbers (their cross-kind order by rendered text is not transitive)",
    "map spread to positional parameters is checked with non-string keys "
    "only in the permutation oracle",
]

PATHS = [
    # iteration
    ("for-set", "def r = []; for x in S do append(r, x) end; r"),
    ("for-map-default", "def r = []; for x in M do append(r, x) end; r"),
    ("for-map-keys", "def r = []; for x in keys M do append(r, x) end; r"),
    ("for-map-values", "def r = []; for x in values M do append(r, x) end; r"),
    ("for-map-entries", "def r = []; for x in entries M do append(r, x) end; r"),
    ("for-map-destructure",
     "def r = []; for [k, v] in entries M do append(r, k + ':' + v) end; r"),
    ("for-object", "def r = []; for x in keys object(M) do append(r, x) end; r"),
    ("for-object-values",
     "def r = []; for x in values object(M) do append(r, x) end; r"),
    ("for-object-entries",
     "def r = []; for x in entries object(M) do append(r, x) end; r"),
    ("for-break-first", "def r = NULL; for x in S do r = x; break end; r"),
    # comprehensions
    ("lc-set", "[x for x in S]"),
    ("lc-map", "[x for x in M]"),
    ("lc-map-keys", "[x for x in keys M]"),
    ("lc-map-values", "[x for x in values M]"),
    ("lc-map-entries", "[x for x in entries M]"),
    ("lc-object-keys", "[x for x in keys object(M)]"),
    ("lc-object-values", "[x for x in values object(M)]"),
    ("lc-object-entries", "[x for x in entries object(M)]"),
    ("lc-product", "[[x, y] for x in S for y in S2]"),
    ("lc-parallel", "[[x, y] for x in S also for y in S]"),
    ("lc-if", "[x for x in S if x != 'zz']"),
    ("sc-set", "string(<<x for x in S>>)"),
    ("sc-product", "string(<<[x, y] for x in S for y in S2>>)"),
    ("mc-set", "string(<<<x => 1 for x in S>>>)"),
    ("mc-index", "def i = 0; def r = <<<>>>; for x in S do r[x] = i; i += 1 end; string(r)"),
    # conversions
    ("list-of-set", "list(S)"),
    ("list-of-map", "list(M)"),
    ("set-of-map", "string(set(M))"),
    ("set-of-list", "string(set(list(S)))"),
    ("map-of-pairs", "string(map([[x, 1] for x in S]))"),
    ("object-of-map", "string(object(M))"),
    ("object-of-map-list", "[x for x in keys object(M)]"),
    ("map-of-object", "string(map(object(M)))"),
    ("string-of-set", "string(S)"),
    ("string-of-map", "string(M)"),
    ("string-of-nested", "string([S, M, <<S>>, <<<'k' => S>>>])"),
    ("boolean-int", "[int(S), boolean(S), length(M)]"),
    # spread
    ("spread-list-set", "[...S]"),
    ("spread-list-map", "[...M]"),
    ("spread-call-rest", "(fn(r...) r...)(...S)"),
    ("spread-call-map-named", "(fn(a = 0, b = 0, c = 0, d = 0, e = 0) [a, b, c, d, e])(...MN)"),
    ("spread-call-positional", "(fn(a, b, c, r...) [a, b, c])(...S)"),
    ("spread-mixed", "[0, ...S, 1, ...S2]"),
    ("apply", "apply(fn(r...) r..., list(S))"),
    # destructuring
    ("def-destructure", "def [a, b, c] = S; [a, b, c]"),
    ("assign-destructure", "def a = 0; def b = 0; def c = 0; [a, b, c] = S; [a, b, c]"),
    ("for-destructure-sets", "def r = []; for [a, b] in [S, S2] do append(r, [a, b]) end; r"),
    # rendering / output
    ("print-set", "print(S); 0"),
    ("println-map", "println(M); 0"),
    ("print-nested", "println([S, M]); 0"),
    ("interpolate", "s('{S} {M}')"),
    ("sprintf", "sprintf('{0}|{1}', S, M)"),
    ("concat-string", "'' + S + M"),
    ("error-value", "error S"),
    ("error-map", "error M"),
    # + and - with collections
    ("set-plus-set", "string(S + S2)"),
    ("set-plus-list", "string(S + ['q', 'r'])"),
    ("list-plus-set", "[1] + S"),
    ("elem-plus-set", "string('q' + S)"),
    ("set-minus-set", "string(S - S2)"),
    ("set-minus-elem", "string(S - list(S)[0])"),
    ("list-minus-set", "list(S) + list(S2) - S2"),
    # library
    ("sorted", "sorted(S)"),
    ("sorted-desc", "sorted(S, cmp = fn(a, b) compare(b, a))"),
    ("enumerate-map", "enumerate(M)"),
    ("enumerate-list", "enumerate(list(S))"),
    ("join", "join(list(S), ',')"),
    ("q", "q(list(S))"),
    ("unlines", "unlines(list(S))"),
    ("reduce-concat", "reduce(list(S), fn(a, b) a + '|' + b)"),
    ("first-last", "[first(list(S)), last(list(S))]"),
    ("min-max", "[min(list(S)), max(list(S))]"),
    ("union", "string(union(S, S2))"),
    ("union-list", "list(union(S, S2))"),
    ("intersection", "list(intersection(S, S2))"),
    ("diff", "list(diff(S, S2))"),
    ("symmetric-diff", "list(symmetric_diff(S, S2))"),
    ("unique", "unique(list(S) + list(S2))"),
    ("zip", "zip(list(S), list(S2))"),
    ("zip-map", "string(zip_map(list(S), list(S)))"),
    ("reverse", "reverse_list(list(S))"),
    ("pairs", "pairs(list(S))"),
    ("chunks", "chunks(list(S), 2)"),
    ("map-list", "map_list(list(S), fn(x) x + '!')"),
    ("filter", "filter(list(S), fn(x) x < 'n')"),
    ("grouped", "grouped(sorted(list(S) + list(S)))"),
    ("append-all", "append_all([], S)"),
    ("append-all-set", "string(append_all(<<>>, list(S2)))"),
    ("flatten", "flatten([list(S), list(S2)])"),
    ("count-find", "[count(list(S), first(list(S))), find(list(S), last(list(S)))]"),
    ("contains", "[contains(S, first(list(S))), first(list(S)) in S, 'nope' in M]"),
    ("map-get", "[M[first(list(set(M)))], map_get(M, 'nope', 0)]"),
    ("remove-put", "def m = map([[k, M[k]] for k in keys M]); remove(m, first(list(set(m)))); put(m, 'new', 1); string(m)"),
    ("label-data", "string(label_data(list(S), list(S)))"),
    ("permutations-first", "permutations(first_n(list(S), 3))"),
    ("set-seed-choice", "set_seed(7); [choice(S), choice(list(S)), random(100)]"),
    ("set-seed-sample", "set_seed(3); [sample(list(S), 2), choices(S, 3)]"),
    ("median-strings", "[median_low(S), median_high(S)]"),
    ("nested-set-order", "[x for x in <<S, S2>>]"),
    ("nested-map-order", "string(<<<identity(S) => 1, identity(S2) => 2>>>)"),
    ("equality", "[S == set(reverse_list(list(S))), M == map(reverse_list(enumerate(M)))]"),
]

# Every library function applied *directly* to a set / map (not to list(S)),
# also with key / cmp functions under which several elements tie.
LIB_EXCLUDED = {
    "bind_native", "close", "console", "execute", "file_copy", "file_delete",
    "file_exists", "file_info", "file_input", "file_move", "file_output",
    "list_dir", "make_dir", "get_env", "now", "timestamp", "read", "read_all",
    "read_file", "readln", "stdin", "stdout", "process_lines", "run", "ls",
    "which", "path", "eval", "parse", "new", "info",
}
LIB_SHAPES = [
    ("S", "F(S)"), ("M", "F(M)"), ("S,S2", "F(S, S2)"), ("S,2", "F(S, 2)"),
    ("S,fn", "F(S, fn(x) length(string(x)))"),
    ("S,key-tie", "F(S, key = fn(x) length(string(x)))"),
    ("S,cmp-tie", "F(S, cmp = fn(a, b) compare(length(string(a)), "
                  "length(string(b))))"),
    ("M,key-const", "F(M, key = fn(x) 0)"),
    ("list,S2", "F(list(S), S2)"),
    ("fn,S", "F(fn(x) length(string(x)), S)"),
]


def lib_paths():
    from ckl.interpreter import Interpreter
    from ckl.values import ValueFunc
    it = Interpreter(False, True)
    out = []
    for name, v in sorted(it.base_environment.map.items()):
        if name in LIB_EXCLUDED or not isinstance(v, ValueFunc):
            continue
        for tag, shape in LIB_SHAPES:
            out.append((f"lib:{name}({tag})",
                        "set_seed(11); " + shape.replace("F(", name + "(", 1)))
    return out


WORDS = ["alpha", "beta", "gamma", "delta", "eps", "zeta", "eta", "theta",
         "iota", "kappa", "a", "b", "c", "aa", "ab", "A", "B", "z", "0", "10",
         "9", "x y", "it's", "k1", "k2", "né", "", "Z", "_", "~"]
SCALARS = [0, 1, 2, 10, -1, 9, 2.5, -0.5, True, False, None, 100]


TIE_WORDS = ["beta", "zeta", "iota", "lime", "pear", "plum", "kiwi", "date",
             "a bc", "it's", "Zeta", "_ab_", "1000", "né é"]


def gen_collections(ch, ties=False):
    mixed = ch.bool(0.3) and not ties
    def elems(n):
        if ties:
            # many elements that tie under length-based keys
            return ch.sample(TIE_WORDS, min(n + 2, len(TIE_WORDS))) + \
                ch.sample(["alpha", "eps", "z", ""], ch.int(0, 2))
        return elems_plain(n)

    def elems_plain(n):
        out = []
        tries = 0
        while len(out) < n:
            tries += 1
            if tries > 40:          # exhausted tape: fill deterministically
                e = "w%d" % len(out)
            elif mixed and ch.bool(0.5):
                e = ch.choice(SCALARS)
            else:
                e = ch.choice(WORDS)
            if not any(mv.meq(e, x) for x in out):
                out.append(e)
        return out
    s = elems(ch.int(3, 6))
    s2 = elems(ch.int(2, 4))
    if ch.bool(0.6):
        s2[0] = s[ch.int(0, len(s) - 1)]
        s2 = [x for i, x in enumerate(s2)
              if not any(mv.meq(x, y) for y in s2[:i])]
    mkeys = elems(ch.int(3, 5))
    mvals = [ch.choice(WORDS) for _ in mkeys]
    names = ch.sample(["a", "b", "c", "d", "e"], ch.int(2, 4))
    mn = [(n, ch.choice(WORDS)) for n in names]
    return {"S": s, "S2": s2, "M": list(zip(mkeys, mvals)), "MN": mn,
            "mixed": mixed}


def set_lit(xs):
    return "<< " + ", ".join(mv.literal(x) for x in xs) + " >>" if xs else "<<>>"


def map_lit(pairs):
    return "<<< " + ", ".join(f"{mv.key_literal(k)} => {mv.literal(v)}"
                              for k, v in pairs) + " >>>" if pairs else "<<<>>>"


def program(coll, path_src, order=None):
    """order: dict name -> permutation (list of indices) or None."""
    def perm(name, xs):
        if order and name in order:
            return [xs[i] for i in order[name]]
        return xs
    return (
        f"def S = {set_lit(perm('S', coll['S']))}; "
        f"def S2 = {set_lit(perm('S2', coll['S2']))}; "
        f"def M = {map_lit(perm('M', coll['M']))}; "
        f"def MN = {map_lit(perm('MN', coll['MN']))}; "
        + path_src
    )


def outcome(src):
    """Observable outcome of a program as a JSON-able list."""
    out = cklrun.run(src, budget=20)
    if out[0] == "value":
        try:
            return ["value", str(out[1]), out[2]]
        except Exception as e:
            return ["render-raises", type(e).__name__, str(e)[:100]]
    if out[0] == "error":
        try:
            return ["error", str(out[1]), str(out[2]), out[4]]
        except Exception as e:
            return ["render-raises", type(e).__name__, str(e)[:100]]
    if out[0] == "host":
        return ["host", out[1], out[2]]
    return [out[0]] + [str(x) for x in out[1:3]]


def strings_of(coll):
    ss = []
    for k in ("S", "S2"):
        ss += [x for x in coll[k] if isinstance(x, str)]
    ss += [k for k, _ in coll["M"] if isinstance(k, str)]
    return sorted(set(ss))


def run_seeds(programs, seeds):
    """programs: list of {"src":..., "strings": [...]}.  Returns
    {seed: [{"out":..., "hostorder":...}, ...]}"""
    tmp = tempfile.mkdtemp(prefix="vf_c12_")
    batch = os.path.join(tmp, "batch.json")
    with open(batch, "w", encoding="utf-8") as f:
        json.dump(programs, f)
    procs = []
    for sd in seeds:
        env = dict(os.environ)
        env["PYTHONHASHSEED"] = str(sd)
        env["VF_REEXEC"] = "1"
        env["PYTHONDONTWRITEBYTECODE"] = "1"
        outp = os.path.join(tmp, f"out_{sd}.json")
        procs.append((sd, outp, subprocess.Popen(
            [sys.executable, "-m", "vf.checks.c12", "--worker", batch, outp],
            cwd=VERIF_DIR, env=env, stdout=subprocess.DEVNULL,
            stderr=subprocess.PIPE)))
    res = {}
    errs = []
    for sd, outp, p in procs:
        try:
            _, err = p.communicate(timeout=1800)
        except subprocess.TimeoutExpired:
            p.kill()
            errs.append(f"seed {sd}: worker timed out")
            continue
        if p.returncode != 0 or not os.path.exists(outp):
            errs.append(f"seed {sd}: worker failed: {err.decode()[-500:]}")
            continue
        with open(outp, encoding="utf-8") as f:
            res[sd] = json.load(f)
    import shutil
    shutil.rmtree(tmp, ignore_errors=True)
    if errs:
        raise RuntimeError("; ".join(errs))
    return res


def worker_main(batch, outp):
    from vf import repo
    repo.bootstrap()
    # every worker also gets another memory layout: addresses must not show
    # either (values that hash by identity)
    shift = int(os.environ.get("PYTHONHASHSEED", "0") or 0)
    junk = [bytearray(997) for _ in range(shift % 1789)]    # noqa: F841
    with open(batch, encoding="utf-8") as f:
        programs = json.load(f)
    res = []
    for p in programs:
        res.append({"out": outcome(p["src"]),
                    "hostorder": list(set(p.get("strings", [])))})
    with open(outp, "w", encoding="utf-8") as f:
        json.dump(res, f)


def seeds_for(tier, base):
    n = 32 if tier == "thorough" else 8
    return [1 + ((base * 131 + k * 7919) % 4000000000) for k in range(n)]


def compare_across(programs, labels, results, local):
    """Yield (index, Finding) for programs whose outcomes differ."""
    for i, p in enumerate(programs):
        outs = {sd: results[sd][i]["out"] for sd in results}
        outs[0] = local[i]
        if any(o and o[0] == "timeout" for o in outs.values()):
            continue        # a time budget hit is inconclusive, never a finding
        distinct = {}
        for sd, o in outs.items():
            distinct.setdefault(json.dumps(o), []).append(sd)
        if len(distinct) > 1:
            shown = "; ".join(f"seeds {v[:3]}: {k[:160]}"
                              for k, v in list(distinct.items())[:3])
            yield i, Finding(f"C12|hashseed|{labels[i]}",
                             f"{p['src']}\n  differs across hash seeds: "
                             f"{shown}")


def host_order_varies(results, i):
    orders = {json.dumps(results[sd][i]["hostorder"]) for sd in results}
    return len(orders) > 1


def prop(case):
    k = case["kind"]
    if k == "perm":
        a = outcome(case["src"])
        b = outcome(case["perm_src"])
        if a != b:
            return Finding(f"C12|construction-order|{case['label']}",
                           f"{case['src']} -> {a}\n  permuted literals: "
                           f"{case['perm_src']} -> {b}")
        return None
    if k == "seeds":
        progs = [{"src": case["src"], "strings": case.get("strings", [])}]
        res = run_seeds(progs, seeds_for("quick", 1))
        local = [outcome(case["src"])]
        for _, f in compare_across(progs, [case["label"]], res, local):
            return f
        return None
    raise ValueError(k)


# --------------------------------------------------------------------- parts

def part_paths(part, n, exhaustive_paths, lib=None):
    collected = []
    PATHS = globals()["PATHS"]
    if lib is not None:
        lp = lib_paths()
        PATHS = [p for i, p in enumerate(lp) if i % lib[1] == lib[0]]
        n = len(PATHS) * (10 if part.tier == "thorough" else 3)

    def body(tape):
        ch = TapeChooser(tape)
        coll = gen_collections(ch, ties=lib is not None and ch.bool(0.7))
        if exhaustive_paths:
            idx = len(collected) % len(PATHS)
        else:
            idx = ch.int(0, len(PATHS) - 1)
        label, psrc = PATHS[idx]
        order = {name: ch.shuffle(list(range(len(coll[name]))))
                 for name in ("S", "S2", "M", "MN")}
        src = program(coll, psrc)
        psrc2 = program(coll, psrc, order)
        part.count()
        a = outcome(src)
        b = outcome(psrc2)
        part.cls("path:" + label + (":mixed" if coll["mixed"] else ""),
                 src if idx % 11 == 0 else None)
        part.cls("outcome:" + a[0])
        collected.append({"src": src, "label": label,
                          "strings": strings_of(coll),
                          "permuted": src != psrc2})
        if a[0] == "timeout" or b[0] == "timeout":
            part.timeouts += 1      # inconclusive, never a finding
            return None
        if a != b:
            return (Finding(f"C12|construction-order|{label}",
                            f"{src} -> {a}\n  permuted literals: {psrc2} "
                            f"-> {b}"),
                    {"kind": "perm", "src": src, "perm_src": psrc2,
                     "label": label})
    part.hyp(tapes(400), body, n, shrink=False)
    # differential across fresh processes with different hash seeds
    if not collected:
        return
    seeds = seeds_for(part.tier, part.seed)
    progs = [{"src": c["src"], "strings": c["strings"]} for c in collected]
    results = run_seeds(progs, seeds)
    local = [outcome(p["src"]) for p in progs]
    part.count(len(progs) * len(seeds))
    varied = 0
    for i, c in enumerate(collected):
        if host_order_varies(results, i):
            varied += 1
            if c["permuted"]:
                part.nontriv(c["src"])
    part.note("programs", len(progs))
    part.note("hash_seeds", seeds)
    part.note("programs_whose_host_string_order_varies_across_seeds", varied)
    for i, f in compare_across(progs, [c["label"] for c in collected],
                               results, local):
        part.collect(f, {"kind": "seeds", "src": progs[i]["src"],
                         "label": collected[i]["label"],
                         "strings": progs[i]["strings"]})


# sets and maps whose elements / keys are functions: unnamed ones, and named
# ones that share a name (made by one maker function)
FUNC_PRELUDE = (
    "def mk(n) do def g() n; g end; "
    "def F = << {fs} >>; def FM = <<< {fm} >>>; "
    "def G = << mk(1), mk(2), mk(3), mk(4) >>; "
    "def FF = << {ffs} >>; def FL = << {fls} >>; ")
FUNC_PATHS = [
    ("fn-set-comprehension", "[f() for f in F]"),
    ("fn-set-loop", "def r = []; for f in F do append(r, f()) end; r"),
    ("fn-set-list", "[f() for f in list(F)]"),
    ("fn-set-spread", "[f() for f in [...F]]"),
    ("fn-set-sorted", "[f() for f in sorted(list(F))]"),
    ("fn-set-call-spread", "(fn(a...) [f() for f in a...])(...F)"),
    ("fn-map-keys", "[k() for k in keys FM]"),
    ("fn-map-values", "[v for v in values FM]"),
    ("fn-map-string", "string(FM)"),
    ("fn-map-entries", "[[e[0](), e[1]] for e in entries FM]"),
    ("fn-named-set", "[f() for f in G]"),
    ("fn-named-set-loop", "def r = []; for f in G do append(r, f()) end; r"),
    ("fn-set-destructure", "def [a, b] = F; [a(), b()]"),
    ("fn-set-union", "[f() for f in F + G]"),
    # collections with one text (the functions in them have one name)
    ("fn-set-of-sets", "[list(e)[0]() for e in FF]"),
    ("fn-set-of-sets-destructure", "def [a, b] = FF; [list(a)[0](), list(b)[0]()]"),
    ("fn-set-of-lists", "[e[0]() for e in FL]"),
    ("fn-set-of-sets-spread", "[list(e)[0]() for e in [...FF]]"),
]


def part_functions(part):
    """Functions hash by identity: their order in a set must still not
    depend on addresses.  Every path x 6 sizes x two element orders, across
    processes with different hash seeds and memory layouts."""
    progs = []
    labels = []
    for n in (2, 3, 4, 5, 6, 8):
        for rev in (False, True):
            ks = list(range(1, n + 1))
            if rev:
                ks.reverse()
            fs = ", ".join(f"fn() {k}" for k in ks)
            fm = ", ".join(f"(fn() {k}) => 'v{k}'" for k in ks)
            ffs = ", ".join(f"<<fn() {k}>>" for k in ks)
            fls = ", ".join(f"[fn() {k}, 0]" for k in ks)
            pre = FUNC_PRELUDE.format(fs=fs, fm=fm, ffs=ffs, fls=fls)
            for label, path in FUNC_PATHS:
                progs.append({"src": pre + path, "strings": []})
                labels.append(label)
    seeds = seeds_for(part.tier, part.seed)
    results = run_seeds(progs, seeds)
    local = [outcome(p["src"]) for p in progs]
    part.count(len(progs) * (len(seeds) + 1))
    for p, lab in zip(progs, labels):
        part.nontriv(p["src"])
    part.cls("functions-as-elements", progs[0]["src"])
    part.note("programs", len(progs))
    part.note("hash_seeds", seeds)
    for i, f in compare_across(progs, labels, results, local):
        part.collect(f, {"kind": "seeds", "src": progs[i]["src"],
                         "label": labels[i], "strings": []})


def parts(tier, seed):
    libs = [(f"lib-{i}", part_paths,
             {"n": 0, "exhaustive_paths": True, "lib": (i, 4)})
            for i in range(4)]
    if tier == "quick":
        return [(f"paths-{i}", part_paths,
                 {"n": 1500, "exhaustive_paths": i < 2})
                for i in range(4)] + libs + [("functions", part_functions, {})]
    return [(f"paths-{i}", part_paths,
             {"n": 5000, "exhaustive_paths": i < 2}) for i in range(4)] + libs \
        + [("functions", part_functions, {})]


if __name__ == "__main__":
    if len(sys.argv) == 4 and sys.argv[1] == "--worker":
        worker_main(sys.argv[2], sys.argv[3])
