#!/usr/bin/env python
"""Reproductions for the C18 hunt (string algebra / s / sprintf).

Run:  cd /tmp/seed3/C18 && PYTHONPATH=/tmp/seed3/C18/src /venv/bin/python hunt/repro.py
Prints one line per finding: FINDING <n>: <VIOLATES|HOLDS> <description>
"""
import signal
import sys

from ckl.interpreter import Interpreter
from ckl.errors import CklRuntimeError, CklSyntaxError
from ckl.values import ValueString


class Timeout(Exception):
    pass


def _alarm(signum, frame):
    raise Timeout()


signal.signal(signal.SIGALRM, _alarm)


def run(code, legacy=True, **strings):
    """Evaluate code on a fresh interpreter; returns python value or ('ERR', msg)."""
    it = Interpreter(secure=False, legacy=legacy)
    for k, v in strings.items():
        it.environment.put(k, ValueString(v))
    signal.alarm(10)
    try:
        v = it.interpret(code, "repro.ckl")
        if v.isString() or v.isInt() or v.isBoolean():
            return v.value
        return repr(v)
    except (CklRuntimeError, CklSyntaxError) as e:
        return ("ERR", e.msg)
    except Timeout:
        return ("ERR", "timeout")
    finally:
        signal.alarm(0)


def report(n, violated, text):
    print(f"FINDING {n}: {'VIOLATES' if violated else 'HOLDS'} {text}")


def all_differ(cases):
    """cases: list of (code, expected); violated if every actual != expected."""
    results = [(c, run(c), e) for c, e in cases]
    return all(a != e for _, a, e in results), results


# 1. zero padding puts the zeroes in front of the minus sign
v, res = all_differ([
    ("def n = -12; s('{n#05}')", "-0012"),
    ("def n = -255; s('{n#06x}')", "-000ff"),
    ("sprintf('{0#08.3}', -3.14159)", "-003.142"),
])
report(1, v, "zero padding of a negative number: "
       + "; ".join(f"{c} -> {a!r} (want {e!r})" for c, a, e in res))

# 2. precision goes through str(round(float(text), digits))
v, res = all_differ([
    ("def n = 0.0000123; s('{n#.5}')", "0.00001"),          # exponent notation
    ("def n = 0.00001234; s('{n#.7}')", "0.0000123"),
    ("def n = 12345678901234567890; s('{n#.2}')", "12345678901234567890.00"),
    ("def n = 9007199254740993; s('{n#.2}')", "9007199254740993.00"),
])
# an int rounded to 2 places must keep its integer value; a decimal must not
# turn into exponent notation (the language itself never renders one)
sub = []
for c, a, e in res:
    bad = isinstance(a, tuple) or "e" in a or (
        "." in a and a.split(".")[0].lstrip("-") != e.split(".")[0].lstrip("-"))
    sub.append(bad)
report(2, all(sub), "precision format yields exponent notation / changes the "
       "integer part: " + "; ".join(f"{c} -> {a!r}" for c, a, e in res))

# 3. replace is recursive per occurrence: >= 247 occurrences fail
s = "a" * 1000
r = run("replace(s, 'a', 'b')", s=s)
r2 = run("replace(s, 'a', 'b')", legacy=False, s=s)
small = run("replace(s, 'a', 'b')", s="a" * 100)
report(3, r != "b" * 1000 and r2 != "b" * 1000 and small == "b" * 100,
       f"replace on a string with 1000 occurrences -> {r!r:.80} "
       f"(100 occurrences fine: {small == 'b' * 100})")

# 4. (doubtful) precision does not produce the requested number of digits
v, res = all_differ([
    ("def n = 1.5; s('{n#.2}')", "1.50"),
    ("def n = 2; s('{n#.2}')", "2.00"),
    ("def n = 2.5; s('{n#.0}')", "2"),      # also gets '2.0' (and half-even)
    ("def n = 999.999; s('{n#06.2}')", "1000.00"),
])
report(4, v, "(doubtful) '#.N' gives fewer than N digits / '.0' for N=0: "
       + "; ".join(f"{c} -> {a!r}" for c, a, e in res))

# 5. (doubtful) placeholder whose expression contains '}' or '#' in a string
v, res = all_differ([
    ("""s("<{'}'}>")""", "<}>"),
    ("""s("<{'#'}>")""", "<#>"),
    ("""s("<{'a#b'}>")""", "<a#b>"),
])
report(5, v, "(doubtful) '}' / '#' inside a placeholder's string literal: "
       + "; ".join(f"{c} -> {a!r}" for c, a, e in res))

# 6. (doubtful) lone '{' in the text before a placeholder; '{}' vanishes
v, res = all_differ([
    ("def x = 1; s('a { b {x} c')", "a { b 1 c"),
    ("s('a{}b')", "a{}b"),
])
report(6, v, "(doubtful) other text not left unchanged: "
       + "; ".join(f"{c} -> {a!r}" for c, a, e in res))

# 7. (doubtful) '-' together with '0' is ignored; negative start in find/replace
v, res = all_differ([
    ("def n = 12; s('{n#-05}') + '|'", "12   |"),
    ("find('abcabc', 'a', start = -1)", 0),
    ("replace('abcabc', 'a', 'X', start = -1)", "XbcXbc"),
])
report(7, v, "(doubtful) '#-05' pads with zeroes on the left; negative start "
       "counts from the end: "
       + "; ".join(f"{c} -> {a!r}" for c, a, e in res))
