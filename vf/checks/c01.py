"""C01  Parsing is total: every source text yields a program or a syntax error."""
import os
import subprocess
import sys
import tempfile
import json
import traceback

from hypothesis import strategies as st

from vf.core import Finding, time_limit, CaseTimeout
from vf.gen.chooser import TapeChooser, tapes
from vf.gen import syntax
from vf.repo import SRC, VERIF_DIR

PROPERTY = "C01"
RULE = (
    "Texts come from (G1) token soup of 1-40 tokens over the full token "
    "alphabet incl. malformed literals, (G2) every token/char prefix, every "
    "single-token deletion and every insertion/substitution of every alphabet "
    "token at every position of grammar-generated programs, (G3) character "
    "noise, (G4, thorough) coverage-guided byte fuzzing. Oracle: parse_script "
    "returns a node or raises CklSyntaxError with non-empty msg and a position "
    "with an integer line, within the time budget, twice with the same "
    "outcome. Non-trivial = distinct text that is not the verbatim rendering "
    "of a generated grammatical program (malformed, truncated, edited, noise)."
)
ASSUMPTIONS = [
    "nesting depth <= 40 by construction (<= 40 tokens in soup/noise; "
    "generated programs have depth <= 8 and edits change it by one)",
    "a time budget of 2 s (typical parse 0.3 ms) decides 'terminates'; a hit "
    "is confirmed in a fresh process with a 20 s budget before it is reported",
    "the parser runs with 1000 stack frames available, as under the default "
    "host recursion limit",
]

SEPARATORS = [" ", " ", " ", "", "\n", "\t", "\r\n", "  ", " # c\n", "#\n"]
NOISE_CHARS = list("()[]<>=!+-*/%,;#'\"\\._ \t\n\rabfxz019eEXB") + \
    ["é", " ", "ß", "€", "\x00", "\x7f", "<<", ">>", "//", "->", "!>",
     "...", "0x", "0b", "\\x", "do ", "end ", "def ", "fn(", "for ", " in ",
     "if ", " then ", "is ", "not "]
NAME = "f.ckl"


def _ckl_frame(tb):
    """Innermost frame inside the repository's sources."""
    best = "?"
    for fs in traceback.extract_tb(tb):
        if fs.filename.startswith(SRC):
            best = f"{os.path.basename(fs.filename)}:{fs.name}"
    return best


def parse_outcome(text, budget=2.0):
    from ckl.parser import parse_script
    from ckl.errors import CklSyntaxError
    depth = 0
    fr = sys._getframe()
    while fr is not None:
        depth += 1
        fr = fr.f_back
    old = sys.getrecursionlimit()
    sys.setrecursionlimit(depth + 1000)
    try:
        try:
            with time_limit(budget):
                node = parse_script(text, NAME)
            if not hasattr(node, "evaluate"):
                return ("bad", "no-node", type(node).__name__)
            return ("program",)
        except CklSyntaxError as e:
            msg, pos = e.msg, e.pos
            if not isinstance(msg, str) or not msg.strip():
                return ("bad", "syntax-error-without-message", repr(msg))
            if pos is None or not isinstance(getattr(pos, "line", None), int) \
                    or isinstance(getattr(pos, "line", None), bool):
                return ("bad", "syntax-error-without-position",
                        f"{msg!r} pos={pos!r}")
            return ("syntax", msg, str(pos))
        except CaseTimeout:
            return ("timeout",)
        except BaseException as e:
            return ("host", type(e).__name__, _ckl_frame(e.__traceback__),
                    str(e)[:200])
    finally:
        sys.setrecursionlimit(old)


def _finding(out, out2=None):
    if out[0] == "host":
        return Finding(f"parse|{out[1]}|{out[2]}", f"{out[1]}: {out[3]}")
    if out[0] == "bad":
        return Finding(f"parse|{out[1]}", out[2])
    if out[0] == "timeout":
        return Finding("parse|timeout", "no outcome within the budget")
    if out2 is not None and out2 != out:
        return Finding("parse|nondeterministic", f"{out} vs {out2}")
    return None


def prop(case):
    budget = float(os.environ.get("VF_CASE_BUDGET", "20"))
    out = parse_outcome(case["text"], budget)
    out2 = parse_outcome(case["text"], budget)
    return _finding(out, out2)


def confirm_timeout(case):
    """Re-run one case alone in a fresh process with a 20 s budget."""
    fd, path = tempfile.mkstemp(suffix=".json", prefix="vf_c01_")
    try:
        with os.fdopen(fd, "w") as f:
            json.dump({"property": PROPERTY, "case": case}, f)
        env = dict(os.environ)
        env["VF_CASE_BUDGET"] = "20"
        try:
            r = subprocess.run(
                [sys.executable, "-m", "vf", "replay", path], cwd=VERIF_DIR,
                env=env, capture_output=True, text=True, timeout=60)
        except subprocess.TimeoutExpired:
            return True
        return r.returncode == 1 and "parse|timeout" in r.stdout
    finally:
        os.unlink(path)


def _eval(part, text, source, twice=True):
    """Evaluate one text; returns an unknown Finding or None."""
    part.count()
    out = parse_outcome(text)
    out2 = parse_outcome(text) if twice and out[0] not in ("timeout",) else None
    case = {"kind": "parse", "source": source, "text": text}
    if out[0] == "timeout":
        if part.judge(Finding("parse|timeout"), case) is None:
            return None
        if confirm_timeout(case):
            return Finding("parse|timeout",
                           "no outcome within 20 s in a fresh process")
        part.timeouts += 1
        return None
    part.cls(f"{source}:{out[0]}", text if len(text) < 200 else None)
    return part.judge(_finding(out, out2), case)


# ------------------------------------------------------------------ parts

def part_soup(part, n):
    def body(tape):
        ch = TapeChooser(tape)
        k = ch.int(1, 40)
        toks = [ch.choice(syntax.TOKEN_ALPHABET) for _ in range(k)]
        text = ""
        for i, t in enumerate(toks):
            if i:
                text += ch.choice(SEPARATORS)
            text += t
        part.nontriv(text)
        f = _eval(part, text, "soup")
        if f:
            return f, {"kind": "parse", "source": "soup", "text": text}
    part.hyp(tapes(1500), body, n)


def part_noise(part, n):
    def body(tape):
        ch = TapeChooser(tape)
        k = ch.int(1, 40)
        text = "".join(ch.choice(NOISE_CHARS) for _ in range(k))
        part.nontriv(text)
        f = _eval(part, text, "noise")
        if f:
            return f, {"kind": "parse", "source": "noise", "text": text}
    part.hyp(tapes(1500), body, n)


def _edits(tokens, alphabet):
    """All prefixes, deletions, and single-token insertions/substitutions."""
    n = len(tokens)
    for i in range(n):
        yield "prefix", tokens[:i]
    for i in range(n):
        yield "delete", tokens[:i] + tokens[i + 1:]
    for i in range(n + 1):
        for t in alphabet:
            yield "insert", tokens[:i] + [t] + tokens[i:]
    for i in range(n):
        for t in alphabet:
            if t != tokens[i]:
                yield "subst", tokens[:i] + [t] + tokens[i + 1:]


def part_edits(part, n, max_tokens=45):
    stats = {"programs": 0, "programs_parse": 0}

    def body(tape):
        ch = TapeChooser(tape)
        g = syntax.SynGen(ch, max_depth=ch.int(2, 4))
        tokens = g.script(ch.int(1, 3))
        if len(tokens) > max_tokens:
            tokens = tokens[:max_tokens]
        base = " ".join(tokens)
        stats["programs"] += 1
        part.count()
        out = parse_outcome(base)
        if out[0] == "program":
            stats["programs_parse"] += 1
        part.cls("edits:base:" + out[0], base)
        f = part.judge(_finding(out), {"kind": "parse", "source": "base",
                                       "text": base})
        if f:
            part.collect(f, {"kind": "parse", "source": "base", "text": base})
        i = 0
        for kind, toks in _edits(tokens, syntax.TOKEN_ALPHABET):
            text = " ".join(toks)
            if text != base:
                part.nontriv(text)
            i += 1
            f = _eval(part, text, "edit-" + kind, twice=(i % 4 == 0))
            if f:
                part.collect(f, {"kind": "parse", "source": "edit-" + kind,
                                 "text": text})
        # character-level prefixes
        for j in range(len(base)):
            text = base[:j]
            part.nontriv(text)
            f = _eval(part, text, "charprefix", twice=False)
            if f:
                part.collect(f, {"kind": "parse", "source": "charprefix",
                                 "text": text})
    part.hyp(tapes(1500), body, n, shrink=False)
    part.note("grammar_programs", stats["programs"])
    part.note("grammar_programs_that_parse", stats["programs_parse"])


def part_grammar(part, n):
    """Self-test of the grammar generator and plain totality on its output:
    most generated programs must be grammatical."""
    stats = {"n": 0, "ok": 0}

    def body(tape):
        ch = TapeChooser(tape)
        g = syntax.SynGen(ch, max_depth=ch.int(2, 5))
        tokens = g.script()
        text = ""
        for i, t in enumerate(tokens):
            if i:
                text += ch.choice([" ", " ", "\n", "\t", " # x\n", "\r\n"])
            text += t
        stats["n"] += 1
        out = parse_outcome(text)
        if out[0] == "program":
            stats["ok"] += 1
        f = _eval(part, text, "grammar")
        if f:
            return f, {"kind": "parse", "source": "grammar", "text": text}
    part.hyp(tapes(1500), body, n)
    part.note("generated", stats["n"])
    part.note("parsed_as_program", stats["ok"])


SEED_CORPUS = [
    "def f(x) x * 2; [f(1), f(2)]",
    "def m = <<<'a' => 1, 'b' => 2>>>; [k for k in keys m]",
    "if 1 < 2 <= 2 then 'y' elif TRUE then 0 else 'n'",
    "do error 5 catch 5 'five' finally 0 end",
    "def g(a, b = 2, r...) [a, b, r...]; g(1, 2, ...[4, 5])",
    "for i in range(3) do if i == 1 then continue end; i",
    "require Math import [abs as a]; a(-3) !> string()",
    "def class P do def x = 1; def m(self) self->x end",
    "<*a = 1, f(self) 2*>->f() + 0x1F + 0b11 + 1_000.5 + //a+// is pattern",
    "x[1 to *] = [y for y in <<1, 2>> also for z in 'ab' if y is not zero]",
]


def part_atheris(part, runs, use_seed_corpus):
    """Coverage-guided byte fuzzing of parse_script (libFuzzer via atheris)
    with the same oracle inside the target."""
    import re as _re
    import shutil
    try:
        from vf import repo as _r
        sys.path.append(_r.DEPS) if _r.DEPS not in sys.path else None
        import atheris  # noqa
    except Exception as e:
        part.note("atheris", f"not available ({type(e).__name__}); part skipped")
        part.cls("atheris:unavailable")
        return
    work = tempfile.mkdtemp(prefix="vf_c01_fuzz_")
    corpus = os.path.join(work, "corpus")
    arts = os.path.join(work, "artifacts")
    os.makedirs(corpus)
    os.makedirs(arts)
    if use_seed_corpus:
        for i, sn in enumerate(SEED_CORPUS):
            with open(os.path.join(corpus, f"seed{i}"), "w") as f:
                f.write(sn)
    env = dict(os.environ)
    env["PYTHONPATH"] = os.pathsep.join(
        [VERIF_DIR, os.path.join(VERIF_DIR, ".deps")])
    try:
        r = subprocess.run(
            [sys.executable, "-m", "vf.checks.c01_fuzz", corpus, arts,
             f"-runs={runs}", f"-seed={part.seed % 2000000000 + 1}",
             "-max_len=160", "-timeout=30", "-rss_limit_mb=4096",
             "-print_final_stats=1"],
            cwd=VERIF_DIR, env=env, capture_output=True, text=True,
            timeout=7200)
        log = r.stdout + r.stderr
        m = _re.search(r"stat::number_of_executed_units:\s*(\d+)", log)
        done = int(m.group(1)) if m else 0
        part.count(done)
        ncorp = len(os.listdir(corpus))
        part.distinct(ncorp)
        part.note("libfuzzer_executed_units", done)
        part.note("libfuzzer_corpus_size", ncorp)
        part.cls("atheris:" + ("seed-corpus" if use_seed_corpus
                               else "empty-corpus"),
                 sorted(os.listdir(corpus))[:1])
        for fn in sorted(os.listdir(arts)):
            with open(os.path.join(arts, fn), "rb") as f:
                text = f.read().decode("utf-8", "replace")
            case = {"kind": "parse", "source": "atheris", "text": text}
            f2 = prop(case)
            if f2 is not None:
                part.collect(f2, case)
        if r.returncode != 0 and not os.listdir(arts):
            part.note("libfuzzer_exit", r.returncode)
            part.note("libfuzzer_log_tail", log[-400:])
    finally:
        shutil.rmtree(work, ignore_errors=True)


def parts(tier, seed):
    if tier == "quick":
        ps = [("soup-%d" % i, part_soup, {"n": 2500}) for i in range(4)]
        ps += [("noise-%d" % i, part_noise, {"n": 2500}) for i in range(3)]
        ps += [("edits-%d" % i, part_edits, {"n": 2, "max_tokens": 30})
               for i in range(8)]
        ps += [("grammar-0", part_grammar, {"n": 1500})]
        ps += [("atheris-%d" % i, part_atheris,
                {"runs": 15000, "use_seed_corpus": i == 0}) for i in range(2)]
    else:
        ps = [("soup-%d" % i, part_soup, {"n": 30000}) for i in range(4)]
        ps += [("noise-%d" % i, part_noise, {"n": 30000}) for i in range(3)]
        ps += [("edits-%d" % i, part_edits, {"n": 12, "max_tokens": 45})
               for i in range(16)]
        ps += [("grammar-%d" % i, part_grammar, {"n": 15000})
               for i in range(2)]
        ps += [("atheris-%d" % i, part_atheris,
                {"runs": 600000, "use_seed_corpus": i % 2 == 0})
               for i in range(8)]
    return ps
