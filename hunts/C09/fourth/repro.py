#!/usr/bin/env python
"""C09 third hunt - reproductions.  Run:
   cd /tmp/seed6/C09 && PYTHONPATH=/tmp/seed6/C09/src /venv/bin/python hunt/repro.py
Prints one line per reported finding (FINDING n: VIOLATES|HOLDS ...) and
RECHECK lines for the item repaired after the first report."""
import io
import os
import signal
import sys

HERE = os.path.dirname(os.path.abspath(__file__))
sys.path.insert(0, os.path.join(HERE, "..", "src"))

from ckl.interpreter import Interpreter            # noqa: E402
from ckl.errors import CklRuntimeError, CklSyntaxError  # noqa: E402
import ckl.values as V                             # noqa: E402


class Timeout(Exception):
    pass


def _alarm(*_):
    raise Timeout()


signal.signal(signal.SIGALRM, _alarm)


def run(it, prog, env=None):
    signal.alarm(20)
    try:
        if env is None:
            return "ok", it.interpret(prog, "repro.ckl")
        return "ok", it.interpret(prog, "repro.ckl", env)
    except (CklRuntimeError, CklSyntaxError) as e:
        return "err", e.msg
    except Timeout:
        return "timeout", None
    except Exception as e:      # host exception
        return "pyexc", repr(e)
    finally:
        signal.alarm(0)


def mk(legacy):
    it = Interpreter(secure=True, legacy=legacy)
    it.setStandardOutput(io.StringIO())
    return it


def finding1():
    """the host hands the interpreter's own base environment to interpret():
    the program runs with the base as its current scope, `def` (or a for
    variable) of the flag lands in the base and secure mode is off"""
    violated = []
    for legacy in (True, False):
        it = mk(legacy)
        prog = ('def checkerlang_secure_mode = FALSE; '
                'bind_native("file_exists"); file_exists("/")')
        r = run(it, prog, env=it.base_environment)
        flag = it.base_environment.map["checkerlang_secure_mode"]
        if r == ("ok", V.TRUE) or flag is not V.TRUE:
            violated.append("legacy" if legacy else "non-legacy")
        # the same through a loop variable (the flag is put back afterwards,
        # the insecure built-in stays bound)
        it = mk(legacy)
        prog = ('for checkerlang_secure_mode in [FALSE] do '
                'bind_native("list_dir") end; length(list_dir("/")) > 0')
        r = run(it, prog, env=it.base_environment)
        if r == ("ok", V.TRUE):
            violated.append(("legacy" if legacy else "non-legacy") + "/for")
        # control: session environment, fresh host environment and a child
        # of the base must stay secure
        for env in ("session", "fresh", "child"):
            it = mk(legacy)
            e = {"session": it.environment,
                 "fresh": __import__("ckl.functions").functions.Environment(),
                 "child": it.base_environment.newEnv()}[env]
            r = run(it, 'def checkerlang_secure_mode = FALSE; '
                        'bind_native("file_exists"); file_exists("/")', env=e)
            if r[0] == "ok":
                violated.append("control-" + env)
    return violated


def recheck_traversal():
    """first report, finding 1 (repaired by ae5fd14): .. in a require spec"""
    data = os.path.join(HERE, "repro_data")
    os.makedirs(data, exist_ok=True)
    with open(os.path.join(data, "c09evil.ckl"), "w") as f:
        f.write('def marker = "EVIL-LOADED";\n')
    bad = []
    specs = ["../../../hunt/repro_data/c09evil",
             "../../../hunt/repro_data/c09evil.ckl",
             "io/../../../../hunt/repro_data/c09evil",
             os.path.join(data, "c09evil")]
    for legacy in (True, False):
        it = mk(legacy)
        for s in specs:
            r = run(it, 'require "%s" as ev; ev->marker' % s)
            if r[0] != "err" or "not found" not in str(r[1]):
                bad.append((legacy, s, r))
    return bad


def recheck_builtins():
    names = ["execute", "file_input", "file_output", "file_copy",
             "file_delete", "file_exists", "file_info", "file_move",
             "list_dir", "make_dir", "run", "read_file"]
    bad = []
    for legacy in (True, False):
        it = mk(legacy)
        run(it, "def checkerlang_secure_mode = FALSE; require IO; require OS;"
                " require 'io' unqualified; require 'os' unqualified")
        for n in names:
            run(it, 'bind_native("%s"); bind_native("%s", "al_%s")'
                % (n, n, n))
            for ref in (n, "al_" + n):
                if run(it, ref)[0] == "ok":
                    bad.append((legacy, ref))
            for m in ("IO", "OS"):
                r = run(it, "%s->%s" % (m, n))
                if r[0] == "ok" and r[1] is not V.NULL:
                    bad.append((legacy, m + "->" + n))
        if it.base_environment.map["checkerlang_secure_mode"] is not V.TRUE:
            bad.append((legacy, "flag"))
    return bad


if __name__ == "__main__":
    v = finding1()
    print("FINDING 1: %s program run with the interpreter's base environment "
          "as host-supplied environment switches secure mode off "
          "(doubtful, host API) %s"
          % ("VIOLATES" if v and not any(x.startswith("control") for x in v)
             else "HOLDS", v))
    b = recheck_traversal()
    print("RECHECK A: %s require with ../ or absolute spec reads no file "
          "outside the module directories %s" % ("VIOLATES" if b else "HOLDS",
                                                 b or ""))
    b = recheck_builtins()
    print("RECHECK B: %s insecure built-ins undefined / unbindable under name "
          "and alias, flag shadow has no effect %s"
          % ("VIOLATES" if b else "HOLDS", b or ""))
