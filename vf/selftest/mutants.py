"""Sensitivity harness: apply one small semantic change to a scratch copy of the
repository, confirm the repository's own tests still pass, run the relevant
quick check against the copy and expect a VIOLATION.

    python -m vf.selftest.mutants [--only ID[,ID]] [--prop C07] [--no-tests]

Scratch copies live under a mkdtemp directory and are removed afterwards.
"""
import argparse
import json
import os
import shutil
import subprocess
import sys
import tempfile
import time

REPO = os.environ.get("VERIF_REPO_BASE", "/repo")
VERIF = os.path.dirname(os.path.dirname(os.path.dirname(os.path.abspath(__file__))))
PY = sys.executable

# (id, property, file, old, new, description)
MUTANTS = []


def M(mid, prop, file, old, new, desc=""):
    MUTANTS.append((mid, prop, file, old, new, desc))


# ---- C01
M("c01-hexdigit-g", "C01", "src/ckl/lexer.py",
  'if ch in "0123456789abcdefABCDEF_":', 'if ch in "0123456789abcdefgABCDEF_":',
  "accept g as a hex digit (int(..,16) then fails)")
M("c01-next-noguard", "C01", "src/ckl/lexer.py",
  '''    def next(self):
        if not self.hasNext():
            raise CklSyntaxError("Unexpected end of input", self.getPos())
''', '''    def next(self):
''', "remove the end-of-input guard of next()")
M('c01-keyword-param', 'C01', 'src/ckl/parser.py',
  'def check_redefine_keyword(token):\n    if token.type == "keyword" or token.value == "NULL":\n        raise CklSyntaxError(',
  'def check_redefine_keyword(token):\n    if token.type == "keyword" or token.value == "NULL":\n        raise ValueError(',
  'ValueError for a keyword used as a name')
# ---- C06
M('c06-int-hash-text', 'C06', 'src/ckl/values.py',
  'class ValueInt(Value):\n    def __init__(self, value):\n        self.value = value\n\n    def __hash__(self):\n        return hash(self.value)',
  'class ValueInt(Value):\n    def __init__(self, value):\n        self.value = value\n\n    def __hash__(self):\n        return hash(str(self.value))',
  'hash ints by their text')
M("c06-remove-identity", "C06", "src/ckl/values.py",
  '''    def removeItem(self, item):
        self.value.remove(item)

    def deleteAt''', '''    def removeItem(self, item):
        for i, v in enumerate(self.value):
            if v is item:
                del self.value[i]
                return
        self.value.remove(item)

    def deleteAt''', "list removal prefers identity (harmless) -- control")
M("c06-set-eq-render", "C06", "src/ckl/values.py",
  '''        if not isinstance(other, ValueSet):
            return False
        return self.value == other.value''',
  '''        if not isinstance(other, ValueSet):
            return False
        return str(self) == str(other)''', "set equality by rendering")

# ---- C07
M("c07-sort-unstable", "C07", "src/ckl/functions.py",
  "                if comparison < 0:\n                    temp = result[j + 1]",
  "                if comparison <= 0:\n                    temp = result[j + 1]",
  "insertion sort swaps equal elements")
M("c07-string-len-first", "C07", "src/ckl/values.py",
  '''        if isinstance(other, ValueString):
            return self.value < other.value''',
  '''        if isinstance(other, ValueString):
            return (len(self.value), self.value) < (len(other.value), other.value)''',
  "compare strings by length first")
M("c07-sortedkeys-unsorted", "C07", "src/ckl/values.py",
  '''    def getSortedKeys(self):
        return sorted(self.value.keys())''',
  '''    def getSortedKeys(self):
        return list(self.value.keys())''', "map keys in insertion order")

# ---- C15
M("c15-index-minus-one", "C15", "src/ckl/nodes.py",
  '''            s = value.value
            i = toIndex(idx, self.pos)
            if i < 0:
                i = i + len(s)''', '''            s = value.value
            i = toIndex(idx, self.pos)
            if i < 0:
                i = i + len(s) - 1''', "negative string index off by one")
M("c15-deleteat-nonorm", "C15", "src/ckl/values.py",
  "        if index >= len(self.value) or index < -len(self.value):",
  "        if index >= len(self.value) or index < 0:",
  "delete_at ignores negative indexes")
M("c15-slice-clamp-before", "C15", "src/ckl/nodes.py",
  '''            lst = value.value
            start = toIndex(start, self.pos)
            end = toIndex(end, self.pos) if end else len(lst)
            if start < 0:
                start += len(lst)''', '''            lst = value.value
            start = toIndex(start, self.pos)
            end = toIndex(end, self.pos) if end else len(lst)
            if end > len(lst):
                end = len(lst) - 1
            if start < 0:
                start += len(lst)''', "list slice end clamped to n-1 when too large")

# ---- C17
M("c17-no-400-rule", "C17", "src/ckl/date.py",
  "return (year % 4 == 0) and ((year % 100 != 0) or (year % 400 == 0))",
  "return (year % 4 == 0) and (year % 100 != 0)", "drop the % 400 rule")
M("c17-epoch", "C17", "src/ckl/date.py", "DAYS_EPOCH = 25569",
  "DAYS_EPOCH = 25570", "epoch constant off by one")


# ---- C13
M("c13-acos-no-null-guard", "C13", "src/ckl/functions.py",
  '''        if args.isNull("x"):
            return NULL
        return ValueDecimal(
            safe_math(math.acos, pos, args.getNumerical("x").value)
        )''', '''        return ValueDecimal(
            safe_math(math.acos, pos, args.get("x").value)
        )''', "acos without NULL guard and type check")
M("c13-deref-no-bounds", "C13", "src/ckl/nodes.py",
  '''            if i < 0:
                i = i + len(lst)
            if i < 0 or i >= len(lst):
                raise CklRuntimeError(
                    ValueString("ERROR"), f"Index out of bounds {i}", self.pos
                )
            return lst[i]''', '''            if i < 0:
                i = i + len(lst)
            if i < 0:
                raise CklRuntimeError(
                    ValueString("ERROR"), f"Index out of bounds {i}", self.pos
                )
            return lst[i]''', "list index upper bound not checked")
M("c13-substr-get", "C13", "src/ckl/functions.py",
  '''        value = args.getString("str").value
        start = args.getInt("startidx").value''',
  '''        value = args.get("str").value
        start = args.getInt("startidx").value''',
  "substr without string check")

# ---- C16
M("c16-sorted-inplace", "C16", "src/ckl/functions.py",
  "        result = lst.value[:]\n        for i in range(len(result)):",
  "        result = lst.value\n        for i in range(len(result)):",
  "sorted sorts its argument in place")
M("c16-add-extends-a", "C16", "src/ckl/functions.py",
  '''                return (
                    ValueList()
                    .addItems(a.asList().value)
                    .addItems(b.asList().value)
                )''', '''                a.value.extend(b.asList().value)
                return a''', "list + list extends the left operand")
M("c16-sublist-alias", "C16", "src/ckl/functions.py",
  '''        result = ValueList()
        for i in range(start, end):
            result.addItem(value[i])
        return result


class FuncSubstr(''', '''        if start == 0 and end == len(value):
            return args.getList("lst")
        result = ValueList()
        for i in range(start, end):
            result.addItem(value[i])
        return result


class FuncSubstr(''', "sublist returns its argument for the full range")
M("c16-slice-alias", "C16", "src/ckl/nodes.py",
  '''            result = ValueList()
            for i in range(start, end):
                result.addItem(lst[i])
            return result''', '''            if start == 0 and end == len(lst):
                return value
            result = ValueList()
            for i in range(start, end):
                result.addItem(lst[i])
            return result''', "l[0 to *] returns the list itself")


# ---- C20
M("c20-crlf-two-lines", "C20", "src/ckl/lexer.py",
  '''                if ch == "\\n":
                    line += 1
                    column = 0''', '''                if ch in "\\r\\n":
                    line += 1
                    column = 0''', "CR counts as a line break of its own")
M("c20-ident-pos-at-emit", "C20", "src/ckl/lexer.py",
  '''                    elif token:
                        here = start
                        self.tokens.append(Token(token, "identifier", here))''',
  '''                    elif token:
                        here = SourcePos(fname, line, column - len(token))
                        self.tokens.append(Token(token, "identifier", here))''',
  "identifier position computed at emission")
M("c20-string-end-line", "C20", "src/ckl/lexer.py",
  '''                if ch == "'":
                    here = start
                    self.tokens.append(Token(token, "string", here))''',
  '''                if ch == "'":
                    here = SourcePos(fname, line, start.column)
                    self.tokens.append(Token(token, "string", here))''',
  "single-quoted string stamped with the line where it ends")
M("c20-error-node-posnext", "C20", "src/ckl/parser.py",
  '''            result = NodeError(parse_expression(lexer), token.pos)''',
  '''            result = NodeError(parse_expression(lexer), lexer.getPosNext())''',
  "error statement stamped with the position of the following token")


# ---- C09
M("c09-filedelete-secure", "C09", "src/ckl/functions.py",
  '''            ["file_delete(filename)", "", "Deletes the specified file."]
        )
        self.secure = False''', '''            ["file_delete(filename)", "", "Deletes the specified file."]
        )''', "file_delete no longer marked insecure")
M("c09-run-always", "C09", "src/ckl/interpreter.py",
  '''        if not secure:
            self.base_environment.put("run", FuncRun(self))''',
  '''        self.base_environment.put("run", FuncRun(self))''',
  "run registered in secure interpreters too")
M("c09-session-flag", "C09", "src/ckl/functions.py",
  '''        environment.getBase().get("checkerlang_secure_mode").value
        and not func.secure''',
  '''        environment.get("checkerlang_secure_mode").value
        and not func.secure''', "binder honours a shadowing flag definition")
M("c09-alias-before-guard", "C09", "src/ckl/functions.py",
  '''def bind_native_fun(environment, func, alias=None):
    if (''', '''def bind_native_fun(environment, func, alias=None):
    if alias is not None:
        environment.put(alias, func)
    if (''', "alias bound before the secure-mode guard")
M("c09-listdir-secure", "C09", "src/ckl/functions.py",
  '''    elif native == "list_dir":
        bind_native_fun(environment, FuncListDir())''',
  '''    elif native == "list_dir":
        add(environment, FuncListDir())''', "list_dir bound without the guard")


# ---- C02
M("c02-sub-right-assoc", "C02", "src/ckl/parser.py",
  '''            expr = func_call("sub", expr, parse_mul_expr(lexer), pos)''',
  '''            expr = func_call("sub", expr, parse_add_expr(lexer), pos)''',
  "binary minus groups to the right")
M('c02-chain-first-operand', 'C02', 'src/ckl/nodes.py',
  '            if not value.value:\n                return FALSE\n            left = right\n        return TRUE\n',
  '            if not value.value:\n                return FALSE\n        return TRUE\n',
  'every chain element is compared with the first operand')
M('c02-and-eager', 'C02', 'src/ckl/nodes.py',
  '    def evaluate(self, environment):\n        for expression in self.expressions:\n            value = expression.evaluate(environment)\n            if isExit(value):\n                return value\n            if not value.isBoolean():\n                raise CklRuntimeError(\n                    ValueString("ERROR"),\n                    f"Expected boolean but got {value.type()}",\n                    self.pos,\n                )\n            if not value.value:\n                return FALSE\n        return TRUE\n',
  '    def evaluate(self, environment):\n        values = [e.evaluate(environment) for e in self.expressions]\n        for value in values:\n            if isExit(value):\n                return value\n            if not value.isBoolean():\n                raise CklRuntimeError(\n                    ValueString("ERROR"),\n                    f"Expected boolean but got {value.type()}",\n                    self.pos,\n                )\n        for value in values:\n            if not value.value:\n                return FALSE\n        return TRUE\n',
  'and evaluates every operand before testing any')
M("c02-int-add-float", "C02", "src/ckl/functions.py",
  '''        if a.isInt() and b.isInt():
            return ValueInt(a.value + b.value)''',
  '''        if a.isInt() and b.isInt():
            return ValueInt(int(float(a.value) + float(b.value)))''',
  "int addition through floats")
M("c02-is-not-empty", "C02", "src/ckl/parser.py",
  '''                return NodeNot(func_call("is_empty", expr, None, pos), pos)''',
  '''                return func_call("is_empty", expr, None, pos)''',
  "is not empty lost its negation")
M("c02-div-floor", "C02", "src/ckl/functions.py",
  '''            quotient = abs(a.value) // abs(divisor)
            if (a.value < 0) != (divisor < 0):
                quotient = -quotient
            return ValueInt(quotient)''',
  '''            return ValueInt(a.value // divisor)''',
  "integer division floors instead of truncating")
M('c02-mul-before-unary', 'C02', 'src/ckl/parser.py',
  '            operand = parse_pred_expr(lexer)\n            if isinstance(operand, NodeLiteral) and operand.value.isDecimal():\n                # -(0.0) is the literal -0.0, as without the parentheses',
  '            operand = parse_mul_expr(lexer)\n            if isinstance(operand, NodeLiteral) and operand.value.isDecimal():\n                # -(0.0) is the literal -0.0, as without the parentheses',
  'unary minus takes a whole product as operand')
# ---- C04
M("c04-set-loop-unsorted", "C04", "src/ckl/nodes.py",
  '''        if lst.isSet():
            values = lst.getSortedItems()
            result = TRUE''', '''        if lst.isSet():
            values = list(lst.value)
            result = TRUE''', "for over a set follows the host order")
M('c04-map-loop-insertion', 'C04', 'src/ckl/nodes.py',
  '        if lst.isMap():\n            values = lst.getSortedEntries()\n            result = TRUE',
  '        if lst.isMap():\n            values = list(lst.value.items())\n            result = TRUE',
  'for over a map visits keys in insertion order')
M('c04-compr-cond-inverted', 'C04', 'src/ckl/nodes.py',
  '                if condition.value:\n                    value = self.valueExpr.evaluate(localEnv)\n                    if isExit(value):\n                        return value\n                    result.addItem(value)\n            else:\n                value = self.valueExpr.evaluate(localEnv)\n                if isExit(value):\n                    return value\n                result.addItem(value)\n        return result\n\n    def __repr__(self):\n        return (\n            "["\n            + repr(self.valueExpr)\n            + " for "\n            + repr(self.identifier)\n            + " in "',
  '                if not condition.value:\n                    value = self.valueExpr.evaluate(localEnv)\n                    if isExit(value):\n                        return value\n                    result.addItem(value)\n            else:\n                value = self.valueExpr.evaluate(localEnv)\n                if isExit(value):\n                    return value\n                result.addItem(value)\n        return result\n\n    def __repr__(self):\n        return (\n            "["\n            + repr(self.valueExpr)\n            + " for "\n            + repr(self.identifier)\n            + " in "',
  'list comprehension keeps the elements its condition rejects')
M("c04-while-break-propagates", "C04", "src/ckl/nodes.py",
  '''            result = self.block.evaluate(environment)
            if result.isBreak():
                result = TRUE
                break
            elif result.isContinue():
                result = TRUE
                # continue
            elif result.isReturn():
                break
            condition = self.expression.evaluate(environment)''',
  '''            result = self.block.evaluate(environment)
            if result.isBreak():
                break
            elif result.isContinue():
                result = TRUE
                # continue
            elif result.isReturn():
                break
            condition = self.expression.evaluate(environment)''',
  "break inside while also leaves the enclosing loop")
M("c04-while-continue-is-break", "C04", "src/ckl/nodes.py",
  '''            elif result.isContinue():
                result = TRUE
                # continue
            elif result.isReturn():
                break
            condition = self.expression.evaluate(environment)''',
  '''            elif result.isContinue():
                result = TRUE
                break
            elif result.isReturn():
                break
            condition = self.expression.evaluate(environment)''',
  "continue inside while ends the loop")
M("c04-string-loop-skips-last", "C04", "src/ckl/nodes.py",
  '''            for i in range(len(s)):
                environment.put(self.identifiers[0], ValueString(s[i:i+1]))''',
  '''            for i in range(len(s) - 1 if len(s) > 2 else len(s)):
                environment.put(self.identifiers[0], ValueString(s[i:i+1]))''',
  "for over a string of length >= 3 skips the last character")


# ---- C05
M("c05-finally-normal-only", "C05", "src/ckl/nodes.py",
  '''            raise
        finally:
            for expression in self.finallyexprs:
                expression.evaluate(environment)
        return result''', '''            raise
        for expression in self.finallyexprs:
            expression.evaluate(environment)
        return result''', "finally runs only when the block ends normally")
M('c05-catch-first-clause', 'C05', 'src/ckl/nodes.py',
  '                if not err or e.value == selector:\n                    return expr.evaluate(environment)\n            raise',
  '                if True:\n                    return expr.evaluate(environment)\n            raise',
  'first catch clause handles every error')
M('c05-swallow-unmatched', 'C05', 'src/ckl/nodes.py',
  '                if not err or e.value == selector:\n                    return expr.evaluate(environment)\n            raise',
  '                if not err or e.value == selector:\n                    return expr.evaluate(environment)\n            if self.catchexprs:\n                return NULL\n            raise',
  'an error no clause matches is swallowed')
M('c05-catch-by-rendering', 'C05', 'src/ckl/nodes.py',
  '                if not err or e.value == selector:',
  '                if not err or str(e.value) == str(selector):',
  'catch compares rendered text (1 vs 1.0 differ)')
M('c05-error-value-stringified', 'C05', 'src/ckl/nodes.py',
  '        if isExit(value):\n            return value\n        raise CklRuntimeError(value, value, self.pos)',
  '        if isExit(value):\n            return value\n        raise CklRuntimeError(value.asString(), value, self.pos)',
  'error values are turned into strings')
# ---- C03
M("c03-dynamic-scope", "C03", "src/ckl/functions.py",
  '''    def execute(self, args, environment, pos):
        env = self.lexicalEnv.newEnv()
        for i in range(len(self.argNames)):''',
  '''    def execute(self, args, environment, pos):
        env = environment.newEnv()
        for i in range(len(self.argNames)):''',
  "function frames are children of the caller's environment")
M("c03-assign-local", "C03", "src/ckl/functions.py",
  '''        if name in self.map:
            self.map[name] = value
        elif self.parent:
            self.parent.set(name, value)''',
  '''        if name in self.map or (self.parent and self.parent.parent
                                and self.parent.parent.parent):
            self.map[name] = value
        elif self.parent:
            self.parent.set(name, value)''',
  "assignment from a nested function frame creates a local binding")
M('c03-defaults-at-definition', 'C03', 'src/ckl/nodes.py',
  '        result.pos = self.pos\n        for i in range(len(self.args)):\n            result.addArg(self.args[i], self.defs[i])',
  '        result.pos = self.pos\n        for i in range(len(self.args)):\n            d = self.defs[i]\n            if d is not None:\n                try:\n                    d = NodeLiteral(d.evaluate(environment), self.pos)\n                except CklRuntimeError:\n                    d = self.defs[i]\n            result.addArg(self.args[i], d)',
  'defaults evaluated when the function is created')
M("c03-positionals-first", "C03", "src/ckl/values.py",
  '''        rest = ValueList()
        for i in range(len(values)):
            if names[i]:
                if names[i] not in self.argNames:
                    raise CklRuntimeError(
                        ValueString("ERROR"),
                        "Argument " + names[i] + " is unknown",
                        self.pos,
                    )
                self.args[names[i]] = values[i]

        inKeywords = False''', '''        rest = ValueList()

        inKeywords = False''', "named arguments are not bound before positional ones")
M("c03-pipe-appends", "C03", "src/ckl/parser.py",
  '''        call = NodeFuncall(fn, lexer.getPos())
        call.addArg(None, node)
        lexer.match("(", "interpunction")
        while not lexer.peekn(1, ")", "interpunction"):
            if lexer.peek().type == "identifier" and lexer.peekn(
                2, "=", "operator"
            ):
                name = lexer.matchIdentifier()
                lexer.match("=", "operator")
                call.addArg(name, parse_expression(lexer))
            else:
                call.addArg(None, parse_expression(lexer))
            if not lexer.peekn(1, ")", "interpunction"):
                lexer.match(",", "interpunction")
        lexer.eat(1)
        node = call''', '''        call = NodeFuncall(fn, lexer.getPos())
        lexer.match("(", "interpunction")
        seen_named = False
        while not lexer.peekn(1, ")", "interpunction"):
            if lexer.peek().type == "identifier" and lexer.peekn(
                2, "=", "operator"
            ):
                if not seen_named:
                    call.addArg(None, node)
                    seen_named = True
                name = lexer.matchIdentifier()
                lexer.match("=", "operator")
                call.addArg(name, parse_expression(lexer))
            else:
                call.addArg(None, parse_expression(lexer))
            if not lexer.peekn(1, ")", "interpunction"):
                lexer.match(",", "interpunction")
        if not seen_named:
            call.addArg(None, node)
        lexer.eat(1)
        node = call''', "pipeline inserts the piped value after the positional arguments")
M('c03-method-first-object-only', 'C03', 'src/ckl/values.py',
  '        while isinstance(current, ValueObject) and id(current) not in seen:\n            if current.hasItem(key):\n                return current\n            seen.add(id(current))\n            current = current.getItem("_proto_")\n        return None',
  '        while isinstance(current, ValueObject) and id(current) not in seen:\n            if current.hasItem(key):\n                return current\n            if len(seen) == 1:\n                return None\n            seen.add(id(current))\n            current = current.getItem("_proto_")\n        return None',
  'member lookup follows the prototype chain one step only')
M("c03-rest-keeps-last-only", "C03", "src/ckl/values.py",
  '''                    rest.addItem(values[i])
                elif argName not in self.args:''',
  '''                    rest.value[:] = [values[i]]
                elif argName not in self.args:''',
  "rest parameter keeps only the last surplus argument")


# ---- C14
M("c14-tab-in-identifier", "C14", "src/ckl/lexer.py",
  '''                if ch in "()+-*/%[]<>=,;!\\"' \\t\\r\\n#":
                    if token == "TRUE":''',
  '''                if ch in "()+-*/%[]<>=,;!\\"' \\r\\n#":
                    if token == "TRUE":''', "TAB does not end an identifier")
M("c14-hex-lowercase-only", "C14", "src/ckl/lexer.py",
  '''                if ch in "0123456789abcdefABCDEF_":
                    token += ch''', '''                if ch in "0123456789abcdef_":
                    token += ch''', "upper-case hex digits are not accepted")
M("c14-ne-alt-means-equals", "C14", "src/ckl/parser.py",
  '''        elif relop in ["==", "is"]:
            cmp = func_call("equals", lhs, rhs, pos)''',
  '''        elif relop in ["==", "is", "<>"]:
            cmp = func_call("equals", lhs, rhs, pos)''',
  "<> compares for equality")
M("c14-dq-newline-escape", "C14", "src/ckl/lexer.py",
  '''            elif state == 31:  # double quotes escapes
                if ch == "n":
                    token += "\\n"
                    state = 3''', '''            elif state == 31:  # double quotes escapes
                if ch == "n":
                    token += "n"
                    state = 3''', "\\n is not an escape in double-quoted strings")
M('c14-bin-underscore', 'C14', 'src/ckl/lexer.py',
  '                        str, int(token.replace("_", ""), 2)',
  '                        str, int(token.split("_")[0], 2)',
  'binary literal cut at the first underscore')
M("c14-comment-swallows-crlf-line", "C14", "src/ckl/lexer.py",
  '''            elif state == 9:  # comment
                if ch == "\\n":
                    state = 0''', '''            elif state == 9:  # comment
                if ch == "\\n" and self.script[pos - 2:pos - 1] != "\\r":
                    state = 0''', "a comment ended by CRLF continues on the next line")


# ---- C10
M("c10-stack-not-unwound", "C10", "src/ckl/nodes.py",
  '''        try:
            moduleEnv = self.loadModule(
                environment, modules, moduleidentifier, modulefile
            )
        finally:
            environment.popModuleStack()''', '''        moduleEnv = self.loadModule(
            environment, modules, moduleidentifier, modulefile
        )
        environment.popModuleStack()''', "module stack kept after a failed load (the original defect)")
M("c10-cache-before-evaluate", "C10", "src/ckl/nodes.py",
  '''            node = ckl.parser.parse_script(modulesrc, "mod:"+modulefile[0:-4])
            node.evaluate(moduleEnv)
            modules[moduleidentifier] = moduleEnv''',
  '''            node = ckl.parser.parse_script(modulesrc, "mod:"+modulefile[0:-4])
            modules[moduleidentifier] = moduleEnv
            node.evaluate(moduleEnv)''', "module cached before its code ran")
M("c10-fresh-env-per-call", "C10", "src/ckl/interpreter.py",
  '''        if environment is None:
            env = self.environment''', '''        if environment is None:
            env = self.environment.newEnv()''', "every interpret call gets a child environment")
M("c10-shared-module-cache", "C10", "src/ckl/functions.py",
  '''        if self.parent is None:
            self.modules = dict()
            self.modulestack = []''', '''        if self.parent is None:
            self.modules = globals().setdefault("_SHARED_MODULES", dict())
            self.modulestack = []''', "module cache shared by all interpreters")
M('c10-session-rollback', 'C10', 'src/ckl/interpreter.py',
  '            node = parse_script(script, filename)\n            try:\n                result = node.evaluate(env)\n            except CklRuntimeError as e:\n                if e.pos is None:\n                    e.pos = getattr(node, "pos", None)\n                raise',
  '            node = parse_script(script, filename)\n            snapshot = dict(env.map)\n            try:\n                result = node.evaluate(env)\n            except CklRuntimeError as e:\n                env.map.clear()\n                env.map.update(snapshot)\n                if e.pos is None:\n                    e.pos = getattr(node, "pos", None)\n                raise',
  'a failing call rolls the session back to its start')
# ---- C11
M("c11-no-underscore-filter-unqualified", "C11", "src/ckl/nodes.py",
  '''        if self.unqualified:
            for name in moduleEnv.getLocalSymbols():
                if name.startswith("_"):
                    continue  # skip private module symbols
                environment.put(name, moduleEnv.get(name))''',
  '''        if self.unqualified:
            for name in moduleEnv.getLocalSymbols():
                environment.put(name, moduleEnv.get(name))''',
  "unqualified import binds private names too")
M('c11-import-binds-all', 'C11', 'src/ckl/nodes.py',
  '            available = moduleEnv.getLocalSymbols()\n            for name, alias in self.symbols:\n                if name.startswith("_"):\n                    continue  # skip private module symbols\n                if name not in available:\n                    continue\n                environment.put(alias, moduleEnv.get(name))',
  '            available = moduleEnv.getLocalSymbols()\n            aliases = dict(self.symbols)\n            for name in available:\n                if name.startswith("_"):\n                    continue  # skip private module symbols\n                environment.put(aliases.get(name, name), moduleEnv.get(name))',
  'an import list binds every public symbol')
M("c11-module-sees-importer", "C11", "src/ckl/nodes.py",
  '''            moduleEnv = environment.getBase().newEnv()''',
  '''            moduleEnv = environment.newEnv()''',
  "module code runs in a child of the importer's environment")
M("c11-cache-by-alias", "C11", "src/ckl/nodes.py",
  '''        moduleidentifier = name
        if not modulename:
            modulename = name''', '''        moduleidentifier = name
        if not modulename:
            modulename = name
        else:
            moduleidentifier = modulename''',
  "the module cache is keyed by the alias")
M("c11-module-object-has-private", "C11", "src/ckl/nodes.py",
  '''            for name in moduleEnv.getLocalSymbols():
                if name.startswith("_"):
                    continue  # skip private module symbols
                val = moduleEnv.get(name)
                if val.isObject() and val.isModule:
                    continue  # do not re-modules!
                obj.addItem(name, val)''',
  '''            for name in moduleEnv.getLocalSymbols():
                val = moduleEnv.get(name)
                if val.isObject() and val.isModule:
                    continue  # do not re-modules!
                obj.addItem(name, val)''',
  "module objects expose private names")


def run(cmd, cwd, env=None, timeout=3600):
    t0 = time.time()
    try:
        r = subprocess.run(cmd, cwd=cwd, env=env, capture_output=True,
                           text=True, timeout=timeout)
        return r.returncode, r.stdout + r.stderr, time.time() - t0
    except subprocess.TimeoutExpired as e:
        return -9, (e.stdout or "") + "\nTIMEOUT", time.time() - t0


def one(mid, prop, file, old, new, desc, run_tests=True, tier="quick",
        seed="1"):
    tmp = tempfile.mkdtemp(prefix="vf_mut_")
    try:
        dst = os.path.join(tmp, "repo")
        os.makedirs(dst)
        shutil.copytree(os.path.join(REPO, "src"), os.path.join(dst, "src"))
        shutil.copytree(os.path.join(REPO, "tests"), os.path.join(dst, "tests"))
        for fn in ("pyproject.toml",):
            if os.path.exists(os.path.join(REPO, fn)):
                shutil.copy(os.path.join(REPO, fn), dst)
        path = os.path.join(dst, file)
        with open(path, encoding="utf-8") as f:
            src = f.read()
        if src.count(old) != 1:
            return {"id": mid, "property": prop, "status": "patch-does-not-apply",
                    "count": src.count(old)}
        with open(path, "w", encoding="utf-8") as f:
            f.write(src.replace(old, new))
        res = {"id": mid, "property": prop, "desc": desc}
        env = dict(os.environ)
        env["PYTHONPATH"] = os.path.join(dst, "src")
        env["PYTHONDONTWRITEBYTECODE"] = "1"
        if run_tests:
            code, out, dt = run([PY, "-m", "pytest", "-q", "-x", "-p",
                                 "no:cacheprovider", "tests"], dst, env, 600)
            res["tests_pass"] = (code == 0)
            res["tests_tail"] = out.strip().splitlines()[-1:] if out else []
        env = dict(os.environ)
        env["VERIF_REPO"] = dst
        env["VERIF_SEED"] = seed
        env.pop("PYTHONPATH", None)
        code, out, dt = run([PY, "-m", "vf", prop, "--tier", tier, "--survey"],
                            VERIF, env)
        res["check_exit"] = code
        res["check_wall_s"] = round(dt, 1)
        res["detected"] = (code == 1 and "VIOLATION" in out)
        sigs = [l.strip() for l in out.splitlines()
                if l.strip().startswith("signature:")]
        res["signatures"] = sigs[:4]
        if code not in (0, 1):
            res["tail"] = out[-800:]
        return res
    finally:
        shutil.rmtree(tmp, ignore_errors=True)
        shutil.rmtree(os.path.join(VERIF, "findings"), ignore_errors=True)


def main():
    ap = argparse.ArgumentParser()
    ap.add_argument("--only")
    ap.add_argument("--prop")
    ap.add_argument("--no-tests", action="store_true")
    ap.add_argument("--tier", default="quick")
    ap.add_argument("--seed", default="1")
    ap.add_argument("--out")
    a = ap.parse_args()
    only = set(a.only.split(",")) if a.only else None
    results = []
    for m in MUTANTS:
        if only and m[0] not in only:
            continue
        if a.prop and m[1] != a.prop:
            continue
        r = one(*m, run_tests=not a.no_tests, tier=a.tier, seed=a.seed)
        results.append(r)
        print(json.dumps(r), flush=True)
    if a.out:
        with open(a.out, "w") as f:
            json.dump(results, f, indent=1)
    missed = [r["id"] for r in results if not r.get("detected")]
    print(f"{len(results) - len(missed)}/{len(results)} detected; missed: {missed}")


if __name__ == "__main__":
    main()
