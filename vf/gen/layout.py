"""Layout and literal-spelling variation of token lists (C14)."""

TERMINATORS_LEFT = {"(", "[", ",", ";"}
TERMINATORS_RIGHT = {")", "]", ",", ";"}
SEPS = [(" ", 8), ("  ", 2), ("\t", 2), ("\n", 4), ("\r\n", 2), (" # note\n", 2),
        ("#x\r\n", 1), ("\n\n  ", 1), (" \t ", 1), ("\n# c1\n# c2\n", 1),
        # empty comments and comments that look like code
        ("#\n", 1), (" #\r\n", 1), ("#\n#\n", 1), ("\n#\n\n", 1),
        (" # 'it''s' \"q\" // x // <<1>> \\\n", 1), ("# #\n", 1)]


def spell_int(ch, n):
    k = ch.weighted([(4, "dec"), (2, "hex"), (2, "bin"), (2, "under")])
    if k == "hex":
        return ("0x%X" if ch.bool() else "0x%x") % n
    if k == "bin" and n < 2 ** 70:
        s = bin(n)[2:]
        if len(s) > 4 and ch.bool():
            s = s[:-4] + "_" + s[-4:]
        return "0b" + s
    if k == "under":
        s = str(n)
        if len(s) > 1:
            i = ch.int(1, len(s) - 1)
            s = s[:i] + "_" + s[i:]
        return s
    return str(n)


def spell_dec(ch, text):
    if ch.bool(0.3):
        a, b = text.split(".")
        if len(a) > 1:
            a = a[:1] + "_" + a[1:]
        elif len(b) > 1:
            b = b[:1] + "_" + b[1:]
        return a + "." + b
    return text


def spell_str(ch, s):
    q = '"' if ch.bool() else "'"
    out = []
    for c in s:
        o = ord(c)
        k = ch.int(0, 9)
        if c == "\\":
            out.append("\\\\" if k else "\\x5c")
        elif c == q:
            out.append("\\" + q if k else "\\x%02x" % o)
        elif c == "\n":
            out.append("\\n" if k else "\\x0a")
        elif c == "\r":
            out.append("\\r" if k else "\\x0D")
        elif c == "\t":
            out.append("\\t" if k else "\\x09")
        elif k == 0 and o < 256:
            out.append(("\\x%02x" if ch.bool() else "\\x%02X") % o)
        elif k == 1 and c in "'\"":
            out.append("\\" + c)          # escaping the other quote is fine
        else:
            out.append(c)
    return q + "".join(out) + q


def respell(ch, tok):
    kind, text, payload = tok
    if kind == "int":
        return spell_int(ch, payload)
    if kind == "dec":
        return spell_dec(ch, text)
    if kind == "str":
        return spell_str(ch, payload)
    if kind == "op" and text in ("!=", "<>"):
        return ch.choice(["!=", "<>"])
    return text


def drop_optional_semicolons(ch, tokens, p=0.5):
    """A `;` directly before end / catch / finally is optional."""
    out = []
    for i, t in enumerate(tokens):
        if t[1] == ";" and i + 1 < len(tokens) and \
                tokens[i + 1][0] == "kw" and \
                tokens[i + 1][1] in ("end", "catch", "finally") and \
                ch.bool(p):
            continue
        out.append(t)
    return out


def relayout(ch, tokens, stats=None):
    tokens = drop_optional_semicolons(ch, tokens)
    out = []
    n = len(tokens)
    changed = 0
    respelled = 0
    for i, t in enumerate(tokens):
        text = respell(ch, t)
        if text != t[1]:
            respelled += 1
        out.append(text)
        if i == n - 1:
            break
        left, right = t[1], tokens[i + 1][1]
        can_touch = left in TERMINATORS_LEFT or right in TERMINATORS_RIGHT
        if can_touch and ch.bool(0.35):
            sep = ""
        else:
            sep = ch.weighted([(w, s) for s, w in SEPS])
        if sep != " ":
            changed += 1
        out.append(sep)
    tail = ch.choice(["", "", " ", "\n", ";", " ;\n", " # the end", "\r\n",
                      "\n# bye\n", ";# x", " #", "\n#", "#\n"])
    if stats is not None:
        stats["boundaries_changed"] = changed
        stats["literals_respelled"] = respelled
        stats["tail"] = tail
    return "".join(out) + tail


# ------------------------------------------------- redundant parentheses

WRAPPABLE = {"bin", "cmp", "and", "or", "not", "neg", "var", "int", "dec",
             "str", "bool", "call", "index", "list", "in", "is", "null",
             "member", "method", "pipe"}


def add_parens(ch, node, p=0.12):
    """Copy of the AST with redundant ("par", e) wrappers around
    sub-expressions in operand / argument / element / condition positions."""
    def wrap(e):
        e2 = walk(e)
        if isinstance(e2, tuple) and e2 and e2[0] in WRAPPABLE and ch.bool(p):
            return ("par", e2)
        return e2

    def walk(x):
        if isinstance(x, list):
            return [walk(y) for y in x]
        if not isinstance(x, tuple) or not x:
            return x
        k = x[0]
        if k == "bin":
            return ("bin", x[1], wrap(x[2]), wrap(x[3]))
        if k == "cmp":
            return ("cmp", [wrap(y) for y in x[1]], x[2])
        if k in ("and", "or"):
            return (k, [wrap(y) for y in x[1]])
        if k in ("not", "neg", "pos"):
            return (k, wrap(x[1]))
        if k == "in":
            return ("in", wrap(x[1]), wrap(x[2]), x[3])
        if k == "is":
            return ("is", wrap(x[1]), x[2], x[3])
        if k == "list":
            return ("list", [y if (isinstance(y, tuple) and y[0] == "spread")
                             else wrap(y) for y in x[1]])
        if k == "set":
            return ("set", [wrap(y) for y in x[1]])
        if k == "call":
            return ("call", walk(x[1]), [walk_arg(a) for a in x[2]])
        if k == "pipe":
            return ("pipe", wrap(x[1]), x[2], [walk_arg(a) for a in x[3]])
        if k == "method":
            return ("method", walk(x[1]), x[2], [walk_arg(a) for a in x[3]])
        if k == "index":
            return ("index", walk(x[1]), wrap(x[2]))
        if k == "def":
            return ("def", x[1], wrap(x[2]))
        if k == "assign":
            return ("assign", x[1], wrap(x[2]))
        if k == "expr":
            return ("expr", walk(x[1]))
        if k == "return":
            return ("return", None if x[1] is None else wrap(x[1]))
        if k == "error":
            return ("error", wrap(x[1]))
        if k == "if":
            return ("if", [(wrap(c), walk(b)) for c, b in x[1]],
                    None if x[2] is None else walk(x[2]))
        if k == "ife":
            return ("ife", [(wrap(c), walk(b)) for c, b in x[1]],
                    None if x[2] is None else walk(x[2]))
        if k == "while":
            return ("while", wrap(x[1]), walk(x[2]))
        if k == "for":
            return ("for", x[1], x[2], walk(x[3]), walk(x[4]))
        if k == "block":
            return ("block", walk(x[1]),
                    [(None if ce is None else walk(ce), walk(cs))
                     for ce, cs in x[2]],
                    None if x[3] is None else walk(x[3]))
        if k == "blocke":
            return ("blocke", walk(x[1]))
        if k == "deffn":
            return ("deffn", x[1], x[2], walk(x[3]))
        if k == "fn":
            return ("fn", x[1], walk(x[2]))
        return x

    def walk_arg(a):
        if a[0] == "pos":
            return ("pos", wrap(a[1]))
        if a[0] == "named":
            return ("named", a[1], wrap(a[2]))
        return a

    return walk(node)
