"""Own AST (plain tuples) for generated programs and its rendering to tokens.

Parenthesisation is derived from the precedence table of the property
statement (or < and < not < comparison < additive < multiplicative < unary),
binary operators left-associative, plus the grammar facts that the operands of
`in` and the subject of `is P` are primaries and that a unary minus / `not`
cannot directly take another one.

Expression nodes
  ("null",) ("bool", b) ("int", n) ("dec", x) ("str", s) ("var", name)
  ("neg", e) ("not", e) ("bin", op, a, b)        op in + - * / %
  ("cmp", [e0, e1, ...], [op0, ...])            chain of == != <> < <= > >=
  ("and", [e...]) ("or", [e...])
  ("in", a, b, negated) ("is", a, pred_words, negated)
  ("list", [items]) ("set", [items]) ("map", [(k, v)]) ("obj", [(name, e)])
      item may be ("spread", e)
  ("call", f, [args])   arg: ("pos", e) | ("named", name, e) | ("spread", e)
  ("pipe", x, f, [args])          x !> f(args)
  ("method", o, name, [args])     o->name(args)
  ("member", o, name)             o->name
  ("index", a, i) ("slice", a, i, j_or_None)
  ("fn", [params], body)          param: (name, default_or_None, is_rest)
  ("ife", [(cond, body)], else_or_None)   if as expression (bodies are blocks)
  ("lcomp", kind, value, var, what, it, second, cond)
        kind in list/set; second: None | (mode, var2, what2, it2) mode for/also
  ("mcomp", key, value, var, what, it, cond)
  ("blocke", block)               do ... end as expression
Statements
  ("def", name, e) ("deffn", name, params, body) ("defdes", [names], e)
  ("assign", name, e) ("opassign", name, op, e) ("desassign", [names], e)
  ("setindex", a, i, e) ("setmember", o, name, e)
  ("if", [(cond, [stmts])], else_stmts_or_None)
  ("for", [vars], what, it, [stmts]) ("while", cond, [stmts])
  ("block", [stmts], [(catch_e_or_None, [stmts])], finally_stmts_or_None)
  ("break",) ("continue",) ("return", e_or_None) ("error", e)
  ("expr", e)
Tokens are (kind, text, payload): kind in int dec str kw id op punct.
"""

P_OR, P_AND, P_NOT, P_CMP, P_ADD, P_MUL, P_UNARY, P_PRED, P_POSTFIX = \
    1, 2, 3, 4, 5, 6, 7, 7.5, 8

BIN_LEVEL = {"+": P_ADD, "-": P_ADD, "*": P_MUL, "/": P_MUL, "%": P_MUL}


def T(kind, text, payload=None):
    return (kind, text, payload)


def kw(w):
    return T("kw", w)


def op(w):
    return T("op", w)


def pu(w):
    return T("punct", w)


def ident(w):
    return T("id", w)


def str_token(s):
    out = []
    for c in s:
        if c == "\\":
            out.append("\\\\")
        elif c == "'":
            out.append("\\'")
        elif c == "\n":
            out.append("\\n")
        elif c == "\r":
            out.append("\\r")
        elif c == "\t":
            out.append("\\t")
        else:
            out.append(c)
    return T("str", "'" + "".join(out) + "'", s)


def dec_text(x):
    import decimal
    s = format(decimal.Decimal(repr(x)), "f")
    if "." not in s:
        s += ".0"
    return s


def level(e):
    k = e[0]
    if k == "or":
        return P_OR
    if k == "and":
        return P_AND
    if k == "not":
        return P_NOT
    if k == "cmp":
        return P_CMP
    if k == "bin":
        return BIN_LEVEL[e[1]]
    if k == "neg":
        return P_UNARY
    if k in ("in", "is"):
        return P_PRED
    if k in ("int", "dec") and e[1] < 0 or (k == "dec" and str(e[1]) == "-0.0"):
        return P_UNARY          # rendered with a leading minus
    if k in ("ife", "fn"):
        return 0                # needs parentheses everywhere but at the top
    if k == "pos":
        return P_UNARY          # unary plus
    return P_POSTFIX


def paren(toks):
    return [pu("(")] + toks + [pu(")")]


def expr(e, need=0):
    """Tokens of expression e where the context requires at least `need`."""
    t = _expr(e)
    if level(e) < need:
        return paren(t)
    return t


def _args(args):
    out = []
    for i, a in enumerate(args):
        if i:
            out.append(pu(","))
        if a[0] == "pos":
            out += expr(a[1], 0) if a[1][0] not in ("ife",) else expr(a[1], 0)
        elif a[0] == "named":
            out += [ident(a[1]), op("=")] + expr(a[2], 0)
        else:
            out += [pu("...")] + _spread_target(a[1])
    return out


def _spread_target(e):
    # the grammar allows identifiers, list and map literals after `...`
    assert e[0] in ("var", "list", "map"), e
    return _expr(e)


def _items(items):
    out = []
    for i, it in enumerate(items):
        if i:
            out.append(pu(","))
        if it[0] == "spread":
            out += [pu("...")] + _spread_target(it[1])
        else:
            out += expr(it, 0)
    return out


def params(ps):
    out = [pu("(")]
    for i, (name, default, is_rest) in enumerate(ps):
        if i:
            out.append(pu(","))
        out.append(ident(name + "..." if is_rest else name))
        if default is not None:
            out += [op("=")] + expr(default, 0)
    return out + [pu(")")]


def what_tokens(what):
    return [ident(what)] if what else []


def _expr(e):
    k = e[0]
    if k == "null":
        return [ident("NULL")]
    if k == "bool":
        return [T("bool", "TRUE" if e[1] else "FALSE", e[1])]
    if k == "int":
        if e[1] < 0:
            return [op("-"), T("int", str(-e[1]), -e[1])]
        return [T("int", str(e[1]), e[1])]
    if k == "dec":
        if e[1] < 0 or str(e[1]) == "-0.0":
            return [op("-"), T("dec", dec_text(-e[1]), -e[1])]
        return [T("dec", dec_text(e[1]), e[1])]
    if k == "str":
        return [str_token(e[1])]
    if k == "var":
        return [ident(e[1])]
    if k == "neg":
        return [op("-")] + expr(e[1], P_PRED)
    if k == "pos":
        return [op("+")] + expr(e[1], P_PRED)
    if k == "par":
        return paren(expr(e[1], 0))
    if k == "not":
        return [kw("not")] + expr(e[1], P_CMP)
    if k == "bin":
        lv = BIN_LEVEL[e[1]]
        return expr(e[2], lv) + [op(e[1])] + expr(e[3], lv + 0.5)
    if k == "cmp":
        out = expr(e[1][0], P_ADD)
        for o, x in zip(e[2], e[1][1:]):
            if o in ("is", "is not"):
                out += [kw(w) for w in o.split()] + expr(x, P_ADD)
            else:
                out += [op(o)] + expr(x, P_ADD)
        return out
    if k == "and":
        out = expr(e[1][0], P_NOT)
        for x in e[1][1:]:
            out += [kw("and")] + expr(x, P_NOT)
        return out
    if k == "or":
        out = expr(e[1][0], P_AND)
        for x in e[1][1:]:
            out += [kw("or")] + expr(x, P_AND)
        return out
    if k == "in":
        mid = [kw("not"), kw("in")] if e[3] else [kw("in")]
        return expr(e[1], P_POSTFIX) + mid + expr(e[2], P_POSTFIX)
    if k == "is":
        mid = [kw("is")] + ([kw("not")] if e[3] else [])
        return expr(e[1], P_POSTFIX) + mid + [ident(w) for w in e[2]]
    if k == "list":
        return [pu("[")] + _items(e[1]) + [pu("]")]
    if k == "set":
        return [pu("<<")] + _items(e[1]) + [pu(">>")]
    if k == "map":
        out = [pu("<<<")]
        for i, (a, b) in enumerate(e[1]):
            if i:
                out.append(pu(","))
            if a[0] in ("var", "null"):
                # identifier keys are string shorthand: compute the key
                out += [ident("identity"), pu("(")] + expr(a, 0) + [pu(")")]
            else:
                out += expr(a, 0)
            out += [pu("=>")] + expr(b, 0)
        return out + [pu(">>>")]
    if k == "obj":
        out = [pu("<*")]
        for i, (n, v) in enumerate(e[1]):
            if i:
                out.append(pu(","))
            out += [ident(n), op("=")] + expr(v, 0)
        return out + [pu("*>")]
    if k == "call":
        # only identifiers, parenthesised expressions and postfix chains
        # starting with one can be followed by a call
        f = e[1]
        ft = expr(f, P_POSTFIX) if f[0] in (
            "var", "call", "index", "member", "method", "pipe", "slice",
            "par") else paren(_expr(f))
        return ft + [pu("(")] + _args(e[2]) + [pu(")")]
    if k == "pipe":
        f = e[2]
        ft = [ident(f[1])] if f[0] == "var" else paren(_expr(f))
        return expr(e[1], P_POSTFIX) + [op("!>")] + ft + [pu("(")] + \
            _args(e[3]) + [pu(")")]
    if k == "method":
        return expr(e[1], P_POSTFIX) + [op("->"), ident(e[2]), pu("(")] + \
            _args(e[3]) + [pu(")")]
    if k == "member":
        return expr(e[1], P_POSTFIX) + [op("->"), ident(e[2])]
    if k == "index":
        return expr(e[1], P_POSTFIX) + [pu("[")] + expr(e[2], 0) + [pu("]")]
    if k == "slice":
        end = expr(e[3], 0) if e[3] is not None else [op("*")]
        return expr(e[1], P_POSTFIX) + [pu("[")] + expr(e[2], 0) + \
            [ident("to")] + end + [pu("]")]
    if k == "fn":
        return [kw("fn")] + params(e[1]) + body_tokens(e[2])
    if k == "ife":
        out = []
        for i, (c, b) in enumerate(e[1]):
            out += [kw("if" if i == 0 else "elif")] + expr(c, P_OR) + \
                [kw("then")] + block_tokens(b)
        if e[2] is not None:
            out += [kw("else")] + block_tokens(e[2])
        return out
    if k == "lcomp":
        o, c = (pu("["), pu("]")) if e[1] == "list" else (pu("<<"), pu(">>"))
        out = [o] + expr(e[2], 0) + [kw("for"), ident(e[3]), kw("in")] + \
            what_tokens(e[4]) + expr(e[5], P_OR)
        if e[6] is not None:
            mode, v2, w2, it2 = e[6]
            out += ([kw("also")] if mode == "also" else []) + \
                [kw("for"), ident(v2), kw("in")] + what_tokens(w2) + \
                expr(it2, P_OR)
        if e[7] is not None:
            out += [kw("if")] + expr(e[7], P_OR)
        return out + [c]
    if k == "mcomp":
        out = [pu("<<<")] + expr(e[1], 0) + [pu("=>")] + expr(e[2], 0) + \
            [kw("for"), ident(e[3]), kw("in")] + what_tokens(e[4]) + \
            expr(e[5], P_OR)
        if e[6] is not None:
            out += [kw("if")] + expr(e[6], P_OR)
        return out + [pu(">>>")]
    if k == "blocke":
        return stmt(e[1])
    raise ValueError(f"unknown expression node {k}")


def body_tokens(body):
    """Function body: a block node or a single expression."""
    if body[0] == "block":
        return stmt(body)
    return expr(body, 0)


def block_tokens(stmts_):
    return [kw("do")] + stmts(stmts_, trailing=True) + [kw("end")]


def stmts(ss, trailing=False):
    out = []
    for i, s in enumerate(ss):
        out += stmt(s)
        if i < len(ss) - 1 or trailing:
            out.append(pu(";"))
    return out


def stmt(s):
    k = s[0]
    if k == "expr":
        return expr(s[1], 0)
    if k == "def":
        return [kw("def"), ident(s[1]), op("=")] + expr(s[2], 0)
    if k == "deffn":
        return [kw("def"), ident(s[1])] + params(s[2]) + body_tokens(s[3])
    if k == "defdes":
        out = [kw("def"), pu("[")]
        for i, n in enumerate(s[1]):
            if i:
                out.append(pu(","))
            out.append(ident(n))
        return out + [pu("]"), op("=")] + expr(s[2], 0)
    if k == "desassign":
        out = [pu("[")]
        for i, n in enumerate(s[1]):
            if i:
                out.append(pu(","))
            out.append(ident(n))
        return out + [pu("]"), op("=")] + expr(s[2], 0)
    if k == "assign":
        return [ident(s[1]), op("=")] + expr(s[2], 0)
    if k == "opassign":
        return [ident(s[1]), op(s[2] + "=")] + expr(s[3], 0)
    if k == "setindex":
        return expr(s[1], P_POSTFIX) + [pu("[")] + expr(s[2], 0) + \
            [pu("]"), op("=")] + expr(s[3], 0)
    if k == "setmember":
        return expr(s[1], P_POSTFIX) + [op("->"), ident(s[2]), op("=")] + \
            expr(s[3], 0)
    if k == "if":
        out = []
        for i, (c, b) in enumerate(s[1]):
            out += [kw("if" if i == 0 else "elif")] + expr(c, P_OR) + \
                [kw("then")] + block_tokens(b)
        if s[2] is not None:
            out += [kw("else")] + block_tokens(s[2])
        return out
    if k == "for":
        vs = s[1]
        if len(vs) == 1:
            vt = [ident(vs[0])]
        else:
            vt = [pu("[")]
            for i, n in enumerate(vs):
                if i:
                    vt.append(pu(","))
                vt.append(ident(n))
            vt.append(pu("]"))
        return [kw("for")] + vt + [kw("in")] + what_tokens(s[2]) + \
            expr(s[3], 0) + block_tokens(s[4])
    if k == "while":
        return [kw("while")] + expr(s[1], P_OR) + block_tokens(s[2])
    if k == "block":
        out = [kw("do")] + stmts(s[1], trailing=True)
        for ce, cs in s[2]:
            out.append(kw("catch"))
            out += [ident("all")] if ce is None else expr(ce, 0)
            out += block_tokens(cs) + [pu(";")]
        if s[3] is not None:
            out += [kw("finally")] + stmts(s[3], trailing=True)
        return out + [kw("end")]
    if k == "break":
        return [kw("break")]
    if k == "continue":
        return [kw("continue")]
    if k == "return":
        if s[1] is None:
            return [kw("return")]     # value-less; a ; or a terminator follows
        return [kw("return")] + expr(s[1], 0)
    if k == "error":
        return [kw("error")] + expr(s[1], 0)
    raise ValueError(f"unknown statement node {k}")


def program_tokens(ss):
    return stmts(ss)


def canonical(tokens):
    return " ".join(t[1] for t in tokens)


def source(ss):
    return canonical(program_tokens(ss))
