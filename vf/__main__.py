"""CLI:  python -m vf C07 [--tier quick|thorough] [--seed N] [--part NAME]... [--survey]
         python -m vf replay <file.json>
Exit 0 = property held on everything explored, 1 = VIOLATION, 2 = harness error.
"""
import argparse
import os
import sys
import traceback


def _reexec_if_needed():
    # The code under test iterates host sets; make every run a pure function
    # of the tree and VERIF_SEED by pinning the host hash seed.
    if os.environ.get("PYTHONHASHSEED") != "0" or \
            os.environ.get("VF_REEXEC") != "1":
        env = dict(os.environ)
        env["PYTHONHASHSEED"] = "0"
        env["VF_REEXEC"] = "1"
        env["PYTHONDONTWRITEBYTECODE"] = "1"
        os.execve(sys.executable, [sys.executable, "-m", "vf"] + sys.argv[1:],
                  env)


def main():
    _reexec_if_needed()
    here = os.path.dirname(os.path.dirname(os.path.abspath(__file__)))
    os.chdir(here)
    p = argparse.ArgumentParser(prog="vf")
    p.add_argument("what")
    p.add_argument("path", nargs="?")
    p.add_argument("--tier", default=os.environ.get("VERIF_TIER", "quick"))
    p.add_argument("--seed", type=int,
                   default=int(os.environ.get("VERIF_SEED", "1") or 1))
    p.add_argument("--part", action="append")
    p.add_argument("--survey", action="store_true")
    p.add_argument("--procs", type=int, default=16)
    a = p.parse_args()
    try:
        from vf import core
        if a.what == "replay":
            return core.replay_file(a.path)
        if a.tier not in ("quick", "thorough"):
            a.tier = "quick"
        return core.run_check(a.what.upper(), a.tier, a.seed,
                              only_parts=a.part, survey=a.survey,
                              procs=a.procs)
    except SystemExit:
        raise
    except BaseException:
        traceback.print_exc()
        print("HARNESS-ERROR (no verdict)", file=sys.stderr)
        return 2


if __name__ == "__main__":
    sys.exit(main())
