import sys, signal
from ckl.parser import parse_script
from ckl.errors import CklSyntaxError
def h(*a): raise TimeoutError()
signal.signal(signal.SIGALRM, h)
for src in ["def","for","f(","a is","0x ",'"\\xZZ"',"//[//","checkerlang_x = 1","def class X do 1 end","1 +","[1,","<<1","<<<a=>","fn(","if 1 then","while","x->","x !>","...","a[","a[1 to","'abc","\"abc\\","//ab","0b","0b2","1.2.3","1_","f(a=","do","do 1","do 1 catch","require","require X import [","def [a","for [a","x = ","a is not","a not","1 is not in","(","()","[for","<*a*>","<*a=*>","def a(x..., y) 1","error","return","break 1","a starts","a starts with","a ends not","is","not","and", "1 and", ";", ";;", "1;;2", "def class", "def class X", "def class X do", "def class X do def", "\"\\x4\"", "'\\x", "0x", "0b", "0xG", "1e5", "x !> (fn", "x !> (fn(y) y", "x !> f->", "for x in", "[x for", "[x for y", "[x for y in", "[x for y in z for", "[x for y in z also", "<<<1 => 2 for", "a[1,", "a[1] +=", "a->b +=", "... 1", "...[", "1 is numerical min_len", "a is date with", "a !> b(c=", "a(b=", "def a = fn", "def a(b=", ]:
    signal.alarm(2)
    try:
        r = parse_script(src, "t")
        out = "OK " + type(r).__name__
    except CklSyntaxError as e:
        out = "SYN %r pos=%r" % (e.msg, e.pos)
    except TimeoutError:
        out = "HANG"
    except RecursionError:
        out = "RECURSION"
    except Exception as e:
        out = "HOST %s: %s" % (type(e).__name__, e)
    finally:
        signal.alarm(0)
    print("%-28r %s" % (src, out))
