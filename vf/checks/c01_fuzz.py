"""atheris / libFuzzer target for C01 (run as a subprocess by vf.checks.c01).

usage: python -m vf.checks.c01_fuzz CORPUS_DIR ARTIFACT_DIR [libFuzzer flags]
An input that violates the totality oracle raises, so libFuzzer stores it as
crash-<sha1> under ARTIFACT_DIR.
"""
import os
import re
import sys


def main():
    from vf import repo
    sys.dont_write_bytecode = True
    sys.path.insert(0, repo.SRC)
    if os.path.isdir(repo.DEPS) and repo.DEPS not in sys.path:
        sys.path.append(repo.DEPS)
    import atheris
    # the interpreter must be imported under instrumentation, i.e. before
    # anything else imports it
    with atheris.instrument_imports(include=["ckl"]):
        import ckl.lexer      # noqa
        import ckl.parser     # noqa
        import ckl.nodes      # noqa
    if not os.path.abspath(ckl.parser.__file__).startswith(repo.SRC):
        raise SystemExit("ckl imported from the wrong place")
    repo._DONE = True
    sys.setrecursionlimit(5000)
    from vf.checks import c01

    nest = re.compile(r"\(|\[|<<|<\*|\bdo\b|\bfn\b|\bif\b|\bfor\b|\bwhile\b|"
                      r"\bdef\b|\bnot\b|-|\+|\berror\b|\breturn\b")

    def target(data):
        text = data.decode("utf-8", "replace")
        if len(nest.findall(text)) > 40:
            return                      # deeper nesting is out of scope
        out = c01.parse_outcome(text, budget=5.0)
        if out[0] in ("host", "bad", "timeout"):
            raise RuntimeError(f"C01 violation: {out}")
        out2 = c01.parse_outcome(text, budget=5.0)
        if out2 != out:
            raise RuntimeError(f"C01 nondeterministic: {out} / {out2}")

    corpus, artifacts = sys.argv[1], sys.argv[2]
    argv = [sys.argv[0], corpus, f"-artifact_prefix={artifacts}/"] + \
        sys.argv[3:]
    atheris.Setup(argv, target)
    atheris.Fuzz()


if __name__ == "__main__":
    main()
