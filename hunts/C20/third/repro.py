"""Reproductions for the third C20 hunt (reported source lines).

Run with:
  cd /tmp/seed5/C20 && PYTHONPATH=/tmp/seed5/C20/src /venv/bin/python hunt/repro.py

Prints one line per finding:  FINDING <n>: <VIOLATES|HOLDS> <description>
(and, after them, RECHECK lines for the repaired items of the second report).
Only the ckl package and the standard library are used.
"""
import os
import shutil
import signal
import sys
import tempfile

sys.path.insert(0, os.path.join(os.path.dirname(os.path.abspath(__file__)),
                                "..", "src"))

from ckl.interpreter import Interpreter  # noqa: E402
from ckl.errors import CklRuntimeError, CklSyntaxError  # noqa: E402


class Timeout(Exception):
    pass


def _alarm(*_):
    raise Timeout()


signal.signal(signal.SIGALRM, _alarm)


def run(src, legacy=True, name="t.ckl"):
    """returns (kind, msg, pos-object-or-None, stacktrace)"""
    signal.alarm(10)
    try:
        it = Interpreter(secure=False, legacy=legacy)
        it.interpret(src, name)
        return ("OK", "", None, [])
    except CklRuntimeError as e:
        try:
            msg = str(e.msg)
        except BaseException:  # noqa
            msg = "<unprintable>"
        return ("RT", msg, e.pos, list(e.stacktrace))
    except CklSyntaxError as e:
        return ("SY", str(e.msg), e.pos, [])
    except Timeout:
        return ("TIMEOUT", "", None, [])
    except BaseException as e:  # noqa
        return ("PY", type(e).__name__ + ": " + str(e), None, [])
    finally:
        signal.alarm(0)


def line_of(r):
    return None if r[2] is None else r[2].line


def file_of(r):
    return None if r[2] is None else r[2].filename


def report(n, violates, desc):
    print(f"FINDING {n}: {'VIOLATES' if violates else 'HOLDS'} {desc}")


def both(fn):
    """a probe violates if it violates in legacy or in non-legacy mode"""
    return any(fn(legacy) for legacy in (True, False))


def nested(k, fn):
    """call fn with k more host stack frames below it"""
    if k == 0:
        return fn()
    return nested(k - 1, fn)


CHAIN = " + ".join(["1"] * 600)      # one statement, about 1200 frames deep


# ---------------------------------------------------------------- finding 1
# "Maximum recursion depth exceeded" is positioned at the first token of the
# enclosing BLOCK (line 1 of the program / the `do` of the function body), or
# at the call of the enclosing function, not at the statement / call that is
# too deep; for plain infinite recursion the line depends on how deep the
# host stack was when interpret() was entered.
def f1a(legacy):
    # the too-deep statement starts on line 5; line 1 is `def a = 1`
    r = run("def a = 1;\ndef b = 2;\n\n\ndef c = " + CHAIN + ";\nc", legacy)
    return r[0] == "RT" and "recursion" in r[1] and line_of(r) != 5


def f1b(legacy):
    # the recursive call is on line 4, the body's `do` on line 1
    src = "def f(x) do\n 1;\n 2;\n 1 + f(x + 1)\n end;\n\nf(1)"
    r = run(src, legacy)
    return r[0] == "RT" and "recursion" in r[1] and line_of(r) != 4


def f1c(legacy):
    # same program, different host stack depth -> different reported lines
    src = "def f(x) do\n 1;\n 2;\n f(x)\n end;\n\nf(1)"
    lines = set()
    for k in range(12):
        r = nested(k, lambda: run(src, legacy))
        if r[0] == "RT" and "recursion" in r[1]:
            lines.add(line_of(r))
    return lines != {4}


def f1d(legacy):
    # too-deep argument on line 4 inside a one-expression function: reported
    # at the call f(1) on line 8, and f has no stack-trace entry
    src = ("def g(a) a;\ndef f(x)\n\n g(" + CHAIN + ");\n\n\n\nf(1)")
    r = run(src, legacy)
    return r[0] == "RT" and "recursion" in r[1] and line_of(r) != 4


report(1, both(f1a) or both(f1b) or both(f1c) or both(f1d),
       "'Maximum recursion depth exceeded' names the first token of the "
       "enclosing block (line 1 of the script, the `do` of the function "
       "body) or the call of the enclosing function instead of the line of "
       "the too-deep statement / recursive call; for plain infinite "
       "recursion the line varies with the host stack depth "
       f"[a={both(f1a)} b={both(f1b)} c={both(f1c)} d={both(f1d)}]")


# ---------------------------------------------------------------- finding 2
# a syntax error (of a required module) raised in the body of a for loop over
# an INPUT is replaced by "Cannot read from input" at the `for` line; the same
# happens to a host RecursionError of the body
def f2(legacy):
    d = tempfile.mkdtemp()
    try:
        with open(os.path.join(d, "modbad.ckl"), "w") as f:
            f.write("def a = 1;\n\ndef b = = 2;\n")      # fault: line 3
        pre = "def checkerlang_module_path = ['" + d + "'];\n"
        if legacy:
            inp = "def inp = str_input('a\\nb');\n"
        else:
            inp = "require IO; def inp = IO->str_input('a\\nb');\n"
        body = "do\n  1;\n  require modbad;\nend"
        # control: loop over a list -> syntax error, mod:modbad line 3
        c = run(pre + inp + "for line in [1] " + body, legacy)
        control_ok = (c[0] == "SY" and file_of(c) == "mod:modbad"
                      and line_of(c) == 3)
        r = run(pre + inp + "for line in inp " + body, legacy)
        lost = not (file_of(r) == "mod:modbad" and line_of(r) == 3)
        # second trigger: the body exhausts the host stack
        r2 = run(inp + "for line in inp\n\n  " + CHAIN, legacy)
        lost2 = r2[0] == "RT" and r2[1] == "Cannot read from input"
        return control_ok and lost and lost2
    finally:
        shutil.rmtree(d, ignore_errors=True)


report(2, both(f2),
       "a syntax error in a module required inside the body of a for loop "
       "over an input (mod:modbad line 3) is reported as 'Cannot read from "
       "input' at the line of the `for`; module name and line are lost "
       "(same for a body that exhausts the host stack)")


# ---------------------------------------------------------------- finding 3
# a runtime error that has no position of its own (here: a _str_ hook bound to
# a built-in that rejects the object) gets the FIRST line of the enclosing
# statement, not the line of the construct that used the value
def f3(legacy):
    if legacy:
        pre = "def o = <*_str_ = sqrt*>;\n"
    else:
        pre = "require Math; def o = <*_str_ = Math->sqrt*>;\n"
    pre += "def m = <<<1 => 2>>>;\n1;\n"                 # 3 lines
    progs = [
        # (program, line on which m[o] begins)
        (pre + "if TRUE then\n\n m[o]\nelse 3", 6),
        (pre + "def r = [\n 1,\n 2,\n m[o]\n]", 7),
        (pre + "do\n 1\nfinally\n 2;\n\n m[o]\nend", 9),
    ]
    bad = 0
    for src, want in progs:
        r = run(src, legacy)
        if r[0] == "RT" and line_of(r) != want:
            bad += 1
    # control: on one line of its own the same construct is reported right
    c = run(pre + "\n\nm[o]", legacy)
    return bad == len(progs) and line_of(c) == 6


report(3, both(f3),
       "a position-less runtime error (rendering hook bound to a built-in) "
       "raised by `m[o]` on a later line of a multi-line if / list literal / "
       "finally part is reported at the first line of the enclosing "
       "statement")


# ------------------------------------------------ re-check of second report
STR_OBJ = ("def o = <*_str_ = fn(self) do\n"
           "  1;\n"
           "  'obj ' + undefined_name\n"
           "end*>;\n"
           "\n"
           "\n")


def rc1(legacy):
    for call in ["string(o)", "println(o)", "print(o)", "string([o])"]:
        if not legacy and call.startswith("print"):
            call = "require IO; IO->" + call
        r = run(STR_OBJ + call, legacy)
        if not (r[0] == "RT" and line_of(r) == 3):
            return False
    return True


def rc2(legacy):
    for p in [STR_OBJ + "string(o)", STR_OBJ + "s('{o}')",
              STR_OBJ + "def m = <<<1 => 2>>>;\nm[o]"]:
        r = run(p, legacy)
        if any(":" not in s for s in r[3]):
            return False
    return True


def rc3(legacy):
    progs = [
        ("def o = <*a = 1*>;\n\no[stdout]", 3),
        ("def o = <*a = 1*>;\n\no[stdout] = 2", 3),
        ("def o = <*a = 1*>;\n\no[stdout] += 2", 3),
        ("def checkerlang_module_path = [stdout];\n\nrequire foo", 3),
        ("def f(o, k) do\n 1;\n o[k]\nend;\n\n\nf(<*a = 1*>, stdout)", 3),
        ("def checkerlang_module_path = [stdout];def f() do\n 1;\n "
         "require foo\nend;\n\n\nf()", 3),
    ]
    for src, want in progs:
        r = run(src, legacy)
        if not (r[0] == "RT" and line_of(r) == want):
            return False
    return True


for n, fn, what in [
        (1, rc1, "fault in a _str_ method keeps its own line"),
        (2, rc2, "the _str_ stack-trace entry carries file and line"),
        (3, rc3, "o[stdout], require with an output in the module path: "
                 "positioned, also inside a function")]:
    ok = fn(True) and fn(False)
    print(f"RECHECK second/{n}: {'HOLDS' if ok else 'STILL FAILS'} {what}")
